#!/usr/bin/env python3
# Regenerates /verif/MANIFEST.json from the table below (claimed properties) and properties.jsonl.
import json, os
V = os.path.dirname(os.path.dirname(os.path.abspath(__file__)))
claimed = json.load(open(os.path.join(V, "tools", "claims.json")))
checks = []
for pid in sorted(claimed):
    c = claimed[pid]
    checks.append({
        "property_id": pid,
        "quick_cmd": f"./run.sh {pid} quick",
        "thorough_cmd": f"./run.sh {pid} thorough",
        "evidence_file": f"/verif/evidence/{pid}.json",
        "replay_cmd_template": "cat {path}",
        "engine": "gosym",
        "level_claimed": {"category": "model_checking",
                          "text": "bounded symbolic execution of the real go/ssa form (" + c["scope"] + "): " + c["text"] + "; each obligation is an SMT query (path condition AND NOT claim) decided by cvc5 and cross-checked by z3, and every explored path's witness is co-executed on the natively compiled code",
                          "design_ref": c["ref"]},
        "level_note": "trusted: go/ssa, the gosym interpreter and its stdlib contracts (validated on every run by native co-execution of path witnesses), the encoding/json tree model, cvc5/z3, the harness oracles; bounds and parts outside the claim are listed in the evidence file and DESIGN.md",
        "technique": c.get("technique", "solver-based bounded symbolic execution of Go SSA (SMT: cvc5, z3 cross-check)")
    })
allp = [json.loads(l)["id"] for l in open(os.path.join(V, "properties.jsonl"))]
na_reasons = json.load(open(os.path.join(V, "tools", "not_applicable.json")))
na = []
for p in allp:
    if p in claimed:
        continue
    na.append({"property_id": p, "reason": na_reasons.get(p, "no check built yet for this property (see DESIGN.md section 3 for the planned kernels)")})
m = {"version": 1,
     "setup_cmd": "cd /verif/engine && GOFLAGS=-mod=mod GOPROXY=off GOSUMDB=off GOTOOLCHAIN=local go build -o /verif/bin/gosym .",
     "hooks": {"guard": "verif", "enable": "none needed: harnesses are injected as overlay files (packages.Config.Overlay / go test -overlay); nothing is written under /repo and no guarded code exists", "baseline_off_cmd": "cd /repo && go test -vet=off -count=1 ./...", "source_commits": [], "add_only": True},
     "engines": [{"name": "gosym", "path": "/verif/engine", "serves_properties": sorted(claimed), "kind_free_text": "symbolic executor for Go SSA (x/tools go/ssa) with SMT back end (cvc5 primary, z3 cross-check), decision-vector path exploration, encoding/json tree model, coroutine scheduler with vector-clock race detection, native co-execution of path witnesses"}],
     "checks": checks,
     "not_applicable": na,
     "notes": "All checks rebuild the SSA from /repo's working tree on every run. Exit 0 = held within the stated bounds (KNOWN-FINDING lines list recorded defects), 1 = VIOLATION confirmed by native replay, 3 = engine error / undecided / unwinding failure (no verdict)."}
json.dump(m, open(os.path.join(V, "MANIFEST.json"), "w"), indent=1)
print("claimed:", sorted(claimed))
