#!/bin/bash
# usage: tools/try_seed.sh <property> <worktree> <name>
# Confirms a seeded change (builds, existing tests pass, demo fails with / passes without), stores it under
# /verif/seeded/<name>/ and runs the property's quick check against /repo with the change applied (then reverts).
set -u
P=$1; WT=$2; NAME=$3
export GOFLAGS=-mod=mod GOPROXY=off GOSUMDB=off GOTOOLCHAIN=local
D=/verif/seeded/$NAME
mkdir -p $D
cp $WT/SEED/patch.diff $D/patch.diff
DEMO=$(ls $WT/SEED/*demo* 2>/dev/null | head -1)
cp "$DEMO" $D/ 2>/dev/null
cp $WT/SEED/README.md $D/agent_README.md 2>/dev/null
SCR=$(mktemp -d /tmp/seedchk.XXXX)
git -C /repo worktree add -q --detach $SCR/wt HEAD
cd $SCR/wt
PKGDIR=$(grep -o "package directory[^\n]*" "$DEMO" | head -1)
DEMODEST=${4:-.}
echo "== without change: demo should pass"
cp "$DEMO" $DEMODEST/zz_seed_demo_test.go
(cd $DEMODEST && timeout 600 go test ${RACE:+-race} -vet=off -count=1 -run 'Demo|Seed|ZZ' . 2>&1 | tail -3) | tee $SCR/without.txt
echo "== with change"
git apply $D/patch.diff && echo applied
go build ./... && echo build-ok
(cd $DEMODEST && timeout 600 go test ${RACE:+-race} -vet=off -count=1 -run 'Demo|Seed|ZZ' . 2>&1 | tail -3) | tee $SCR/with.txt
rm -f $DEMODEST/zz_seed_demo_test.go
echo "== existing suite with change"
timeout 1200 go test -vet=off -count=1 ./... 2>&1 | grep -v "no test files" | tail -12 | tee $SCR/suite.txt
cd /verif
git -C /repo worktree remove --force $SCR/wt
echo "== check against /repo with the change"
git -C /repo apply $D/patch.diff
timeout 1800 ./run.sh $P quick > $SCR/check.txt 2>&1; RC=$?
git -C /repo checkout -- .
git -C /repo status --short | head -3
grep -v "^/verif/engine" $SCR/check.txt | grep "VIOLATION\|harness=\|ENGINE-ERROR\|exit=" | cut -c1-260 | head -12
echo "check exit code: $RC"
cp $SCR/check.txt $D/check_output.txt
rm -rf $SCR
