#!/usr/bin/env python3
# Regenerates the two generated tables of DESIGN.md section 9 (fixes from known_findings.json, seeds from
# seeded/*/meta.json) in place.
import json, os, re
V = os.path.dirname(os.path.dirname(os.path.abspath(__file__)))
p = os.path.join(V, "DESIGN.md")
s = open(p).read()
d = json.load(open(os.path.join(V, "known_findings.json")))
fixed = ""
for f in d["fixed"]:
    parts = f.split(" ", 3)
    prop = parts[1].split("=")[1]; h = parts[2]; text = parts[3].replace("|", "/")
    if len(text) > 260:
        text = text[:257] + "..."
    fixed += "| %s | `%s` | %s |\n" % (prop, h, text)
seeds = ""
names = sorted(os.listdir(os.path.join(V, "seeded")))
for n in names:
    m = json.load(open(os.path.join(V, "seeded", n, "meta.json")))
    db = m["detected_by"]
    first = "missed, still open" if db.startswith("NOT CAUGHT") else "caught as first written" if ("as first written" in db or db.startswith(m["property"] + " quick")) else "missed first, check strengthened"
    seeds += "| `%s` | %s | %s | %s |\n" % (n, m["property"], first, db.replace("|", "/"))
def repl(header, body, s):
    i = s.index(header)
    j = i + len(header)
    k = s.index("\n\n", j)
    return s[:j] + body.rstrip("\n") + s[k:]
s = repl("| property | commit | what failed |\n|----------|--------|-------------|\n", fixed, s)
s = repl("| seed | property | first run | detection |\n|------|----------|-----------|-----------|\n", seeds, s)
s = re.sub(r"small to repair got one unguarded `fix:` commit each \(\d+ commits", "small to repair got one unguarded `fix:` commit each (%d commits" % len(d["fixed"]), s)
s = re.sub(r"\n\d+ changes, each compiling, passing the existing suite", "\n%d changes, each compiling, passing the existing suite" % len(names), s)
s = re.sub(r"at the last(\s+)commit all \d+ exit 1", lambda m: "at the last%scommit all %d exit 1" % (m.group(1), len(names)), s)
open(p, "w").write(s)
print("fixed:", len(d["fixed"]), "seeds:", len(names))
