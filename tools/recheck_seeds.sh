#!/bin/bash
# Re-runs every seeded change against /repo's current HEAD: applies the patch, runs the property's quick
# check, restores /repo. Prints one line per seed.
cd /verif
for d in seeded/*/; do
  name=$(basename $d)
  prop=$(python3 -c "import json;m=json.load(open('$d/meta.json'));print(m.get('check_property',m['property']))")
  if ! git -C /repo apply --check /verif/$d/patch.diff 2>/dev/null; then
    if git -C /repo apply --3way --check /verif/$d/patch.diff 2>/dev/null; then :; else echo "$name prop=$prop PATCH-DOES-NOT-APPLY"; continue; fi
  fi
  git -C /repo apply /verif/$d/patch.diff 2>/dev/null || { echo "$name prop=$prop PATCH-DOES-NOT-APPLY"; continue; }
  timeout 2400 ./run.sh $prop quick > /tmp/seed_$name.txt 2>&1; rc=$?
  git -C /repo checkout -- . ; git -C /repo clean -fdq
  echo "$name prop=$prop rc=$rc $(grep -c '^VIOLATION' /tmp/seed_$name.txt) violation lines"
done
git -C /repo status --short | head -3
