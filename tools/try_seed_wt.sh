#!/bin/bash
# usage: tools/try_seed_wt.sh <property> <worktree-with-SEED> <name> [check-property]
# Like try_seed.sh, but never touches /repo: the seeded change is applied in a scratch worktree and the
# check is pointed at it with GOSYM_REPO (evidence redirected), so that it can run while other checks run on
# /repo. The final confirmation against /repo itself is tools/recheck_seeds.sh.
set -u
P=$1; WT=$2; NAME=$3; CP=${4:-$P}
export GOFLAGS=-mod=mod GOPROXY=off GOSUMDB=off GOTOOLCHAIN=local
D=/verif/seeded/$NAME
mkdir -p $D
cp $WT/SEED/patch.diff $D/patch.diff
DEMO=$(ls $WT/SEED/*demo* 2>/dev/null | head -1)
cp "$DEMO" $D/ 2>/dev/null
cp $WT/SEED/README.md $D/agent_README.md 2>/dev/null
SCR=$(mktemp -d /tmp/seedchk.XXXX)
git -C /repo worktree add -q --detach $SCR/wt HEAD
cd $SCR/wt
echo "== without change: demo should pass"
cp "$DEMO" ./zz_seed_demo_test.go
(timeout 600 go test ${RACE:+-race} -vet=off -count=1 -run 'Demo|Seed|ZZ' . 2>&1 | tail -3) | tee $SCR/without.txt
echo "== with change"
git apply $D/patch.diff && echo applied
go build ./... && echo build-ok
(timeout 600 go test ${RACE:+-race} -vet=off -count=1 -run 'Demo|Seed|ZZ' . 2>&1 | tail -3) | tee $SCR/with.txt
rm -f ./zz_seed_demo_test.go
echo "== existing suite with change"
timeout 1200 go test -vet=off -count=1 ./... 2>&1 | grep -v "no test files" | tail -12 | tee $SCR/suite.txt
echo "== check against the worktree with the change"
cd /verif
GOSYM_REPO=$SCR/wt GOSYM_EVIDENCE=$SCR/evidence.json timeout 1800 ${GOSYM_BIN:-./bin/gosym} check -p $CP -tier quick > $SCR/check.txt 2>&1; RC=$?
grep -v "^/verif/engine" $SCR/check.txt | grep "VIOLATION\|harness=\|ENGINE-ERROR\|exit=" | cut -c1-260 | head -12
echo "check exit code: $RC"
cp $SCR/check.txt $D/check_output.txt
git -C /repo worktree remove --force $SCR/wt
rm -rf $SCR
