#!/bin/sh
# usage: ./run.sh <property> [quick|thorough]  -- runs the gosym check for one property against /repo's working tree
set -u
cd "$(dirname "$0")"
export GOFLAGS=-mod=mod GOPROXY=off GOSUMDB=off GOTOOLCHAIN=local
if [ ! -x bin/gosym ] || [ -n "$(find engine -newer bin/gosym -name '*.go' 2>/dev/null | head -1)" ]; then
  (cd engine && go build -o ../bin/gosym .) || exit 2
fi
exec ./bin/gosym check -p "$1" -tier "${2:-${VERIF_TIER:-quick}}"
