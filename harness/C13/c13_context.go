//verif:pkg .
//verif:use servers_mcp
//verif:bound two requests with distinct symbolic header tokens (printable ASCII <= 6) from two clients / sessions; the second request is served completely while the first is suspended inside its tool handler; two HTTP context functions, one middleware, one tool-list filter; Streamable server (stateless and stateful) and legacy SSE server
package mcp

import (
	"context"
	"net/http"
	"strings"
	"time"
)

type c13K1 struct{}
type c13K2 struct{}

type c13Obs struct {
	order     []string
	mwTok     []interface{}
	filterTok []interface{}
	hTok      []interface{}
	hTok2     []interface{}
	hSess     []string
	hAfter    []interface{}
	hSender   []bool
	nested    func()
	depth     int
	nestInMW  bool // the other client's request arrives while this one is still in the middleware
	mwDepth   int
}

func (o *c13Obs) f1(ctx context.Context, r *http.Request) context.Context {
	o.order = append(o.order, "f1")
	return context.WithValue(ctx, c13K1{}, r.Header.Get("X-Tok"))
}
func (o *c13Obs) f2(ctx context.Context, r *http.Request) context.Context {
	o.order = append(o.order, "f2")
	t, _ := ctx.Value(c13K1{}).(string) // f1 ran before f2 on the same context
	return context.WithValue(ctx, c13K2{}, t+"!")
}
func (o *c13Obs) mw(next HandlerFunc) HandlerFunc {
	return func(ctx context.Context, req *JSONRPCRequest) (JSONRPCMessage, error) {
		o.mwTok = append(o.mwTok, ctx.Value(c13K1{}))
		o.mwDepth++
		if o.nestInMW && o.mwDepth == 1 && o.nested != nil {
			o.nested()
		}
		return next(ctx, req)
	}
}
func (o *c13Obs) handler(ctx context.Context, r *CallToolRequest) (*CallToolResult, error) {
	o.hTok = append(o.hTok, ctx.Value(c13K1{}))
	o.hTok2 = append(o.hTok2, ctx.Value(c13K2{}))
	sid := ""
	if s := ClientSessionFromContext(ctx); s != nil {
		sid = s.GetID()
	}
	o.hSess = append(o.hSess, sid)
	_, hasSender := GetNotificationSender(ctx)
	o.hSender = append(o.hSender, hasSender)
	o.depth++
	if !o.nestInMW && o.depth == 1 && o.nested != nil {
		o.nested() // another client's request is served while this one is in flight
		o.hAfter = append(o.hAfter, ctx.Value(c13K1{}))
	}
	return NewTextResult("ok"), nil
}

func c13Tokens() (string, string) {
	a, b := vString("tokA", 6), vString("tokB", 6)
	vAssume(a != b)
	vAssume(a != "")
	return a, b
}

func c13ListNames(rec *verifRecorder) []string {
	frame, _ := verifParse(rec.body)
	m, _ := verifObj(frame)
	res, _ := verifObj(m["result"])
	arr, _ := res["tools"].([]interface{})
	var names []string
	for _, t := range arr {
		tm, _ := verifObj(t)
		n, _ := tm["name"].(string)
		names = append(names, n)
	}
	return names
}

func c13Has(names []string, n string) bool {
	for _, x := range names {
		if x == n {
			return true
		}
	}
	return false
}

func H_C13_streamable() {
	vRandConcrete(true)
	stateful := vBool("stateful")
	a, b := c13Tokens()
	o := &c13Obs{nestInMW: vBool("overlapInMiddleware")}
	filter := func(ctx context.Context, tools []*Tool) []*Tool {
		o.filterTok = append(o.filterTok, ctx.Value(c13K1{}))
		tok, _ := ctx.Value(c13K1{}).(string)
		var out []*Tool
		for _, t := range tools {
			if t.Name == "secret" && tok != a {
				continue
			}
			out = append(out, t)
		}
		return out
	}
	opts := []ServerOption{WithPostSSEEnabled(false), WithHTTPContextFunc(o.f1), WithHTTPContextFunc(o.f2), WithMiddleware(o.mw), WithToolListFilter(filter)}
	if !stateful {
		opts = append(opts, WithStatelessMode(true))
	}
	srv := NewServer("srv", "1.0", opts...)
	srv.RegisterTool(NewTool("t"), o.handler)
	srv.RegisterTool(NewTool("secret"), o.handler)
	sa, sb := "", ""
	if stateful {
		for i := 0; i < 2; i++ {
			rec := newVerifRecorder()
			srv.httpHandler.ServeHTTP(rec, verifRequest("POST", "/mcp",
				[]byte(`{"jsonrpc":"2.0","id":0,"method":"initialize","params":{"protocolVersion":"2025-03-26"}}`), "Accept", "application/json", "X-Tok", "init"))
			if i == 0 {
				sa = rec.header.Get("Mcp-Session-Id")
			} else {
				sb = rec.header.Get("Mcp-Session-Id")
			}
		}
		vAssume(sa != "" && sb != "" && sa != sb)
		o.order, o.mwTok = nil, nil
		o.mwDepth = 0
	}
	call := []byte(`{"jsonrpc":"2.0","id":1,"method":"tools/call","params":{"name":"t","arguments":{}}}`)
	list := []byte(`{"jsonrpc":"2.0","id":2,"method":"tools/list"}`)
	recB := newVerifRecorder()
	o.nested = func() {
		srv.httpHandler.ServeHTTP(recB, verifRequest("POST", "/mcp", call, "Accept", "application/json", "X-Tok", b, "Mcp-Session-Id", sb))
	}
	recA := newVerifRecorder()
	srv.httpHandler.ServeHTTP(recA, verifRequest("POST", "/mcp", call, "Accept", "application/json", "X-Tok", a, "Mcp-Session-Id", sa))
	vAssert("both-answered", vAnd(recA.code() == 200, recB.code() == 200))
	vAssert("two-handler-runs", len(o.hTok) == 2)
	if len(o.hTok) == 2 {
		// when the overlap happens in the middleware the other client's handler runs first
		ia, ib := 0, 1
		if o.nestInMW {
			ia, ib = 1, 0
		}
		vAssert("outer-handler-own-token", o.hTok[ia] == a)
		vAssert("inner-handler-own-token", o.hTok[ib] == b)
		vAssert("outer-handler-own-derived-value", o.hTok2[ia] == a+"!")
		vAssert("inner-handler-own-derived-value", o.hTok2[ib] == b+"!")
		if !o.nestInMW {
			vAssert("outer-context-unchanged-after-inner-request", vAnd(len(o.hAfter) == 1, o.hAfter[0] == a))
		}
		vAssert("handlers-have-sender", vAnd(o.hSender[0], o.hSender[1]))
		if stateful {
			vAssert("outer-handler-own-session", o.hSess[ia] == sa)
			vAssert("inner-handler-own-session", o.hSess[ib] == sb)
		}
	}
	vAssert("context-funcs-in-registration-order", vAnd(len(o.order) == 4, strings.Join(o.order, ",") == "f1,f2,f1,f2"))
	o.nestInMW = false
	vAssert("middleware-own-tokens", vAnd(len(o.mwTok) == 2, vAnd(o.mwTok[0] == a, o.mwTok[1] == b)))
	// list filters are evaluated per request
	o.nested = nil
	r1, r2, r3 := newVerifRecorder(), newVerifRecorder(), newVerifRecorder()
	srv.httpHandler.ServeHTTP(r1, verifRequest("POST", "/mcp", list, "Accept", "application/json", "X-Tok", a, "Mcp-Session-Id", sa))
	srv.httpHandler.ServeHTTP(r2, verifRequest("POST", "/mcp", list, "Accept", "application/json", "X-Tok", b, "Mcp-Session-Id", sb))
	srv.httpHandler.ServeHTTP(r3, verifRequest("POST", "/mcp", list, "Accept", "application/json", "X-Tok", a, "Mcp-Session-Id", sa))
	n1, n2, n3 := c13ListNames(r1), c13ListNames(r2), c13ListNames(r3)
	vAssert("admitted-caller-sees-entry", vAnd(c13Has(n1, "secret"), c13Has(n3, "secret")))
	vAssert("hidden-entry-never-listed", !c13Has(n2, "secret"))
	vAssert("public-entry-for-all", vAnd(c13Has(n1, "t"), c13Has(n2, "t")))
	vAssert("filters-saw-own-tokens", vAnd(len(o.filterTok) == 3, vAnd(o.filterTok[0] == a, vAnd(o.filterTok[1] == b, o.filterTok[2] == a))))
	vReach("end")
}

func H_C13_legacy_sse() {
	a, b := c13Tokens()
	o := &c13Obs{}
	srv := NewSSEServer("srv", "1.0", WithSSEContextFunc(o.f1), WithSSEMiddleware(o.mw))
	srv.RegisterTool(NewTool("t"), o.handler)
	mk := func(id string) *sseSession {
		s := &sseSession{done: make(chan struct{}), eventQueue: make(chan string, 100), sessionID: id,
			notificationChannel: make(chan *JSONRPCNotification, 100), data: make(map[string]interface{})}
		srv.sessions.Store(id, s)
		return s
	}
	s1, s2 := mk("s1"), mk("s2")
	call := []byte(`{"jsonrpc":"2.0","id":1,"method":"tools/call","params":{"name":"t","arguments":{}}}`)
	post := func(sid, tok string) {
		rec := newVerifRecorder()
		req := verifRequest("POST", "/message", call, "X-Tok", tok)
		req.URL.RawQuery = "sessionId=" + sid
		srv.ServeHTTP(rec, req)
	}
	wait := func(s *sseSession) bool {
		select {
		case <-s.eventQueue:
			return true
		case <-time.After(300 * time.Millisecond):
		}
		return false
	}
	o.nested = func() {
		post("s2", b)
		wait(s2)
	}
	post("s1", a)
	vAssert("first-answered", wait(s1))
	vAssert("two-handler-runs", len(o.hTok) == 2)
	if len(o.hTok) == 2 {
		vAssert("outer-handler-own-token", o.hTok[0] == a)
		vAssert("inner-handler-own-token", o.hTok[1] == b)
		vAssert("outer-handler-own-session", o.hSess[0] == "s1")
		vAssert("inner-handler-own-session", o.hSess[1] == "s2")
		vAssert("outer-context-unchanged-after-inner-request", vAnd(len(o.hAfter) == 1, o.hAfter[0] == a))
	}
	vAssert("middleware-own-tokens", vAnd(len(o.mwTok) == 2, vAnd(o.mwTok[0] == a, o.mwTok[1] == b)))
	vReach("end")
}
