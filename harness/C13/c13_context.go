//verif:pkg .
//verif:use servers_mcp
//verif:bound two requests with distinct symbolic header tokens (printable ASCII <= 6) from two clients / sessions; the second request is served completely while the first is suspended inside its tool handler; two HTTP context functions, one middleware, one tool-list filter; Streamable server (stateless and stateful) and legacy SSE server; list filters (tools, prompts, resources) that compact their input in place while another client's list or initialize request is served inside the filter call
package mcp

import (
	"context"
	"net/http"
	"strings"
	"time"
)

type c13K1 struct{}
type c13K2 struct{}

type c13Obs struct {
	order     []string
	mwTok     []interface{}
	filterTok []interface{}
	hTok      []interface{}
	hTok2     []interface{}
	hSess     []string
	hAfter    []interface{}
	hSender   []bool
	hData     []interface{} // what each handler read back from its session after the other request ran
	hObj      []Session
	nested    func()
	depth     int
	nestInMW  bool // the other client's request arrives while this one is still in the middleware
	mwDepth   int
}

func (o *c13Obs) f1(ctx context.Context, r *http.Request) context.Context {
	o.order = append(o.order, "f1")
	return context.WithValue(ctx, c13K1{}, r.Header.Get("X-Tok"))
}
func (o *c13Obs) f2(ctx context.Context, r *http.Request) context.Context {
	o.order = append(o.order, "f2")
	t, _ := ctx.Value(c13K1{}).(string) // f1 ran before f2 on the same context
	return context.WithValue(ctx, c13K2{}, t+"!")
}
func (o *c13Obs) mw(next HandlerFunc) HandlerFunc {
	return func(ctx context.Context, req *JSONRPCRequest) (JSONRPCMessage, error) {
		o.mwTok = append(o.mwTok, ctx.Value(c13K1{}))
		o.mwDepth++
		if o.nestInMW && o.mwDepth == 1 && o.nested != nil {
			o.nested()
		}
		return next(ctx, req)
	}
}
func (o *c13Obs) handler(ctx context.Context, r *CallToolRequest) (*CallToolResult, error) {
	o.hTok = append(o.hTok, ctx.Value(c13K1{}))
	o.hTok2 = append(o.hTok2, ctx.Value(c13K2{}))
	sid := ""
	if s := ClientSessionFromContext(ctx); s != nil {
		sid = s.GetID()
	}
	o.hSess = append(o.hSess, sid)
	_, hasSender := GetNotificationSender(ctx)
	o.hSender = append(o.hSender, hasSender)
	// the session handed to this request is used as request/caller-scoped storage
	tok, _ := ctx.Value(c13K1{}).(string)
	sess, _ := GetSessionFromContext(ctx)
	if sess != nil {
		sess.SetData("who", tok)
	}
	o.hObj = append(o.hObj, sess)
	slot := len(o.hObj) - 1 // this handler run, in start order (as hTok)
	o.depth++
	if !o.nestInMW && o.depth == 1 && o.nested != nil {
		o.nested() // another client's request is served while this one is in flight
		o.hAfter = append(o.hAfter, ctx.Value(c13K1{}))
	}
	// recorded in the slot of this handler run (the inner request finishes before the outer one)
	for len(o.hData) <= slot {
		o.hData = append(o.hData, nil)
	}
	if sess != nil {
		v, _ := sess.GetData("who")
		o.hData[slot] = v
	}
	return NewTextResult("ok"), nil
}

func c13Tokens() (string, string) {
	a, b := vString("tokA", 6), vString("tokB", 6)
	vAssume(a != b)
	vAssume(a != "")
	return a, b
}

func c13ListNames(rec *verifRecorder) []string {
	frame, _ := verifParse(rec.body)
	m, _ := verifObj(frame)
	res, _ := verifObj(m["result"])
	arr, _ := res["tools"].([]interface{})
	var names []string
	for _, t := range arr {
		tm, _ := verifObj(t)
		n, _ := tm["name"].(string)
		names = append(names, n)
	}
	return names
}

func c13Has(names []string, n string) bool {
	for _, x := range names {
		if x == n {
			return true
		}
	}
	return false
}

func H_C13_streamable() {
	vRandConcrete(true)
	stateful := vBool("stateful")
	a, b := c13Tokens()
	o := &c13Obs{nestInMW: vBool("overlapInMiddleware")}
	filter := func(ctx context.Context, tools []*Tool) []*Tool {
		o.filterTok = append(o.filterTok, ctx.Value(c13K1{}))
		tok, _ := ctx.Value(c13K1{}).(string)
		var out []*Tool
		for _, t := range tools {
			if t.Name == "secret" && tok != a {
				continue
			}
			out = append(out, t)
		}
		return out
	}
	opts := []ServerOption{WithPostSSEEnabled(false), WithHTTPContextFunc(o.f1), WithHTTPContextFunc(o.f2), WithMiddleware(o.mw), WithToolListFilter(filter)}
	if !stateful {
		opts = append(opts, WithStatelessMode(true))
	}
	srv := NewServer("srv", "1.0", opts...)
	srv.RegisterTool(NewTool("t"), o.handler)
	srv.RegisterTool(NewTool("secret"), o.handler)
	sa, sb := "", ""
	if stateful {
		for i := 0; i < 2; i++ {
			rec := newVerifRecorder()
			srv.httpHandler.ServeHTTP(rec, verifRequest("POST", "/mcp",
				[]byte(`{"jsonrpc":"2.0","id":0,"method":"initialize","params":{"protocolVersion":"2025-03-26"}}`), "Accept", "application/json", "X-Tok", "init"))
			if i == 0 {
				sa = rec.header.Get("Mcp-Session-Id")
			} else {
				sb = rec.header.Get("Mcp-Session-Id")
			}
		}
		vAssume(sa != "" && sb != "" && sa != sb)
		o.order, o.mwTok = nil, nil
		o.mwDepth = 0
	}
	call := []byte(`{"jsonrpc":"2.0","id":1,"method":"tools/call","params":{"name":"t","arguments":{}}}`)
	list := []byte(`{"jsonrpc":"2.0","id":2,"method":"tools/list"}`)
	recB := newVerifRecorder()
	o.nested = func() {
		srv.httpHandler.ServeHTTP(recB, verifRequest("POST", "/mcp", call, "Accept", "application/json", "X-Tok", b, "Mcp-Session-Id", sb))
	}
	recA := newVerifRecorder()
	srv.httpHandler.ServeHTTP(recA, verifRequest("POST", "/mcp", call, "Accept", "application/json", "X-Tok", a, "Mcp-Session-Id", sa))
	vAssert("both-answered", vAnd(recA.code() == 200, recB.code() == 200))
	vAssert("two-handler-runs", len(o.hTok) == 2)
	if len(o.hTok) == 2 {
		// when the overlap happens in the middleware the other client's handler runs first
		ia, ib := 0, 1
		if o.nestInMW {
			ia, ib = 1, 0
		}
		vAssert("outer-handler-own-token", o.hTok[ia] == a)
		vAssert("inner-handler-own-token", o.hTok[ib] == b)
		vAssert("outer-handler-own-derived-value", o.hTok2[ia] == a+"!")
		vAssert("inner-handler-own-derived-value", o.hTok2[ib] == b+"!")
		if !o.nestInMW {
			vAssert("outer-context-unchanged-after-inner-request", vAnd(len(o.hAfter) == 1, o.hAfter[0] == a))
		}
		vAssert("handlers-have-sender", vAnd(o.hSender[0], o.hSender[1]))
		// two clients never share a session object (also in stateless mode, where each request gets a
		// temporary one): what a request stored in its session is what it reads back
		vAssert("each-request-has-a-session", vAnd(o.hObj[0] != nil, o.hObj[1] != nil))
		if o.hObj[0] != nil && o.hObj[1] != nil {
			vAssert("sessions-of-two-clients-are-distinct", vAnd(o.hObj[0] != o.hObj[1], o.hObj[0].GetID() != o.hObj[1].GetID()))
		}
		vAssert("session-data-not-overwritten-by-the-other-client", vAnd(len(o.hData) == 2, vAnd(o.hData[ia] == a, o.hData[ib] == b)))
		if stateful {
			vAssert("outer-handler-own-session", o.hSess[ia] == sa)
			vAssert("inner-handler-own-session", o.hSess[ib] == sb)
		}
	}
	vAssert("context-funcs-in-registration-order", vAnd(len(o.order) == 4, strings.Join(o.order, ",") == "f1,f2,f1,f2"))
	o.nestInMW = false
	vAssert("middleware-own-tokens", vAnd(len(o.mwTok) == 2, vAnd(o.mwTok[0] == a, o.mwTok[1] == b)))
	// list filters are evaluated per request
	o.nested = nil
	r1, r2, r3 := newVerifRecorder(), newVerifRecorder(), newVerifRecorder()
	srv.httpHandler.ServeHTTP(r1, verifRequest("POST", "/mcp", list, "Accept", "application/json", "X-Tok", a, "Mcp-Session-Id", sa))
	srv.httpHandler.ServeHTTP(r2, verifRequest("POST", "/mcp", list, "Accept", "application/json", "X-Tok", b, "Mcp-Session-Id", sb))
	srv.httpHandler.ServeHTTP(r3, verifRequest("POST", "/mcp", list, "Accept", "application/json", "X-Tok", a, "Mcp-Session-Id", sa))
	n1, n2, n3 := c13ListNames(r1), c13ListNames(r2), c13ListNames(r3)
	vAssert("admitted-caller-sees-entry", vAnd(c13Has(n1, "secret"), c13Has(n3, "secret")))
	vAssert("hidden-entry-never-listed", !c13Has(n2, "secret"))
	vAssert("public-entry-for-all", vAnd(c13Has(n1, "t"), c13Has(n2, "t")))
	vAssert("filters-saw-own-tokens", vAnd(len(o.filterTok) == 3, vAnd(o.filterTok[0] == a, vAnd(o.filterTok[1] == b, o.filterTok[2] == a))))
	vReach("end")
}

func H_C13_legacy_sse() {
	a, b := c13Tokens()
	o := &c13Obs{}
	srv := NewSSEServer("srv", "1.0", WithSSEContextFunc(o.f1), WithSSEMiddleware(o.mw))
	srv.RegisterTool(NewTool("t"), o.handler)
	mk := func(id string) *sseSession {
		s := &sseSession{done: make(chan struct{}), eventQueue: make(chan string, 100), sessionID: id,
			notificationChannel: make(chan *JSONRPCNotification, 100), data: make(map[string]interface{})}
		srv.sessions.Store(id, s)
		return s
	}
	s1, s2 := mk("s1"), mk("s2")
	call := []byte(`{"jsonrpc":"2.0","id":1,"method":"tools/call","params":{"name":"t","arguments":{}}}`)
	post := func(sid, tok string) {
		rec := newVerifRecorder()
		req := verifRequest("POST", "/message", call, "X-Tok", tok)
		req.URL.RawQuery = "sessionId=" + sid
		srv.ServeHTTP(rec, req)
	}
	wait := func(s *sseSession) bool {
		select {
		case <-s.eventQueue:
			return true
		case <-time.After(300 * time.Millisecond):
		}
		return false
	}
	o.nested = func() {
		post("s2", b)
		wait(s2)
	}
	post("s1", a)
	vAssert("first-answered", wait(s1))
	vAssert("two-handler-runs", len(o.hTok) == 2)
	if len(o.hTok) == 2 {
		vAssert("outer-handler-own-token", o.hTok[0] == a)
		vAssert("inner-handler-own-token", o.hTok[1] == b)
		vAssert("outer-handler-own-session", o.hSess[0] == "s1")
		vAssert("inner-handler-own-session", o.hSess[1] == "s2")
		vAssert("outer-context-unchanged-after-inner-request", vAnd(len(o.hAfter) == 1, o.hAfter[0] == a))
	}
	vAssert("middleware-own-tokens", vAnd(len(o.mwTok) == 2, vAnd(o.mwTok[0] == a, o.mwTok[1] == b)))
	vReach("end")
}

// ---- list filters while another client's request is served ----

func c13Names(rec *verifRecorder, key, field string) []string {
	frame, _ := verifParse(rec.body)
	m, _ := verifObj(frame)
	res, _ := verifObj(m["result"])
	arr, _ := res[key].([]interface{})
	var names []string
	for _, t := range arr {
		tm, _ := verifObj(t)
		n, _ := tm[field].(string)
		names = append(names, n)
	}
	return names
}

// c13SameNames: the same names, each once (tools and prompts are listed in no particular order).
func c13SameNames(a, b []string) bool {
	if len(a) != len(b) {
		return false
	}
	for _, x := range b {
		n := 0
		for _, y := range a {
			if x == y {
				n++
			}
		}
		if n != 1 {
			return false
		}
	}
	return true
}

// H_C13_list_filter_overlap: a list filter hides the first-registered entry from everybody but the admin by
// compacting the slice it was given in place; while the user's request is inside the filter (after the
// compaction) the admin's list request - or an initialize - is served completely. Each caller must get the
// list its own filter call produced. Tools, prompts and resources.
func H_C13_list_filter_overlap() {
	vRandConcrete(true)
	kind := vChoice("registry", 3)      // 0 tools, 1 prompts, 2 resources
	other := vChoice("otherRequest", 2) // what the second client sends: 0 the same list, 1 initialize
	var srv *Server
	var nested func()
	depth := 0
	hidden := func(ctx context.Context, name string) bool {
		tok, _ := ctx.Value(c13K1{}).(string)
		return name == "secret" && tok != "admin"
	}
	after := func() {
		depth++
		if depth == 1 && nested != nil {
			nested()
		}
	}
	toolFilter := func(ctx context.Context, in []*Tool) []*Tool {
		out := in[:0]
		for _, t := range in {
			if !hidden(ctx, t.Name) {
				out = append(out, t)
			}
		}
		after()
		return out
	}
	promptFilter := func(ctx context.Context, in []*Prompt) []*Prompt {
		out := in[:0]
		for _, t := range in {
			if !hidden(ctx, t.Name) {
				out = append(out, t)
			}
		}
		after()
		return out
	}
	resourceFilter := func(ctx context.Context, in []*Resource) []*Resource {
		out := in[:0]
		for _, t := range in {
			if !hidden(ctx, t.Name) {
				out = append(out, t)
			}
		}
		after()
		return out
	}
	ctxFunc := func(ctx context.Context, r *http.Request) context.Context {
		return context.WithValue(ctx, c13K1{}, r.Header.Get("X-Tok"))
	}
	srv = NewServer("srv", "1.0", WithStatelessMode(true), WithPostSSEEnabled(false), WithHTTPContextFunc(ctxFunc),
		WithToolListFilter(toolFilter), WithPromptListFilter(promptFilter), WithResourceListFilter(resourceFilter))
	th := func(ctx context.Context, r *CallToolRequest) (*CallToolResult, error) {
		return NewTextResult("ok"), nil
	}
	rh := func(ctx context.Context, r *ReadResourceRequest) (ResourceContents, error) {
		return TextResourceContents{URI: r.Params.URI, Text: "t"}, nil
	}
	for _, n := range []string{"secret", "a", "b"} {
		srv.RegisterTool(NewTool(n), th)
		srv.RegisterPrompt(&Prompt{Name: n}, nil)
		srv.RegisterResource(&Resource{URI: "res://" + n, Name: n}, rh)
	}
	method := []string{"tools/list", "prompts/list", "resources/list"}[kind]
	key := []string{"tools", "prompts", "resources"}[kind]
	listBody := []byte(`{"jsonrpc":"2.0","id":1,"method":"` + method + `"}`)
	adminRec := newVerifRecorder()
	nested = func() {
		body := listBody
		if other == 1 {
			body = []byte(c13Init)
		}
		srv.httpHandler.ServeHTTP(adminRec, verifRequest("POST", "/mcp", body, "Accept", "application/json", "X-Tok", "admin"))
	}
	userRec := newVerifRecorder()
	srv.httpHandler.ServeHTTP(userRec, verifRequest("POST", "/mcp", listBody, "Accept", "application/json", "X-Tok", "user"))
	vAssert("user-list-is-what-its-filter-produced", c13SameNames(c13Names(userRec, key, "name"), []string{"a", "b"}))
	if other == 0 {
		vAssert("admin-list-is-complete", c13SameNames(c13Names(adminRec, key, "name"), []string{"secret", "a", "b"}))
	} else {
		vAssert("other-request-answered", adminRec.code() == 200)
	}
	// and a later sequential request still sees the whole registry
	lateRec := newVerifRecorder()
	nested = nil
	srv.httpHandler.ServeHTTP(lateRec, verifRequest("POST", "/mcp", listBody, "Accept", "application/json", "X-Tok", "admin"))
	vAssert("registry-unharmed-by-in-place-filter", c13SameNames(c13Names(lateRec, key, "name"), []string{"secret", "a", "b"}))
	vReach("end")
}

const c13Init = `{"jsonrpc":"2.0","id":0,"method":"initialize","params":{"protocolVersion":"2025-03-26","clientInfo":{"name":"c","version":"1"},"capabilities":{}}}`

// ---- legacy SSE notification handlers: the context of the POST that carried the notification ----

type c13Gen struct{ n int }

func (g *c13Gen) GenerateSessionID(r *http.Request) string {
	g.n++
	return []string{"n1", "n2", "n3"}[g.n-1]
}

// H_C13_legacy_notification: two sessions opened through the real GET handler with one token each, then
// one notification POST per session carrying a different token: each notification handler sees the
// context-function value of its own POST (not of the GET that opened the stream, not of the other session)
// and its own session.
func H_C13_legacy_notification() {
	a, b := c13Tokens()
	o := &c13Obs{}
	srv := NewSSEServer("srv", "1.0", WithSSEContextFunc(o.f1), WithSSESessionIDGenerator(&c13Gen{}))
	var seen []interface{}
	var seenSess []string
	srv.RegisterNotificationHandler("notifications/custom", func(ctx context.Context, n *JSONRPCNotification) error {
		sid := ""
		if s := ClientSessionFromContext(ctx); s != nil {
			sid = s.GetID()
		}
		seen = append(seen, ctx.Value(c13K1{}))
		seenSess = append(seenSess, sid)
		return nil
	})
	open := func(tok string) context.CancelFunc {
		rec := newVerifRecorder()
		ctx, cancel := context.WithCancel(context.Background())
		go func() {
			srv.ServeHTTP(rec, verifRequest("GET", "/sse", nil, "Accept", "text/event-stream", "X-Tok", tok).WithContext(ctx))
			rec.finished = true
		}()
		vQuiesce()
		return cancel
	}
	c1 := open("g1")
	c2 := open("g2")
	post := func(sid, tok string) {
		rec := newVerifRecorder()
		req := verifRequest("POST", "/message", []byte(`{"jsonrpc":"2.0","method":"notifications/custom","params":{}}`), "Content-Type", "application/json", "X-Tok", tok)
		req.URL.RawQuery = "sessionId=" + sid
		srv.ServeHTTP(rec, req)
		vQuiesce()
	}
	post("n1", a)
	post("n2", b)
	vAssert("two-notification-handler-runs", len(seen) == 2)
	if len(seen) == 2 {
		vAssert("first-notification-own-post-token", seen[0] == a)
		vAssert("second-notification-own-post-token", seen[1] == b)
		vAssert("first-notification-own-session", seenSess[0] == "n1")
		vAssert("second-notification-own-session", seenSess[1] == "n2")
	}
	c1()
	c2()
	vQuiesce()
	vReach("end")
}
