//verif:pkg .
//verif:use servers_mcp
//verif:bound server side: one tools/call (string id <= 8 chars or integer id 0..2^53, lazy arguments object of depth 2) on each server kind, then a second call with a different id and different arguments on the same server; handler invocations counted, received arguments compared with the request's own
//verif:assume concurrency of real transports (more than the modelled goroutines), HTTP/2 framing and retry interaction are outside this kernel
package mcp

import (
	"context"
	"encoding/json"
	"strings"
	"time"
)

type c01Log struct {
	calls int
	args  []map[string]interface{}
}

func (l *c01Log) handler(ctx context.Context, r *CallToolRequest) (*CallToolResult, error) {
	l.calls++
	l.args = append(l.args, r.Params.Arguments)
	// the answer is computed from this request's own arguments
	nonce, _ := r.Params.Arguments["nonce"].(string)
	return NewTextResult("echo:" + nonce), nil
}

func c01Call(id interface{}, nonce string, extra []byte) []byte {
	args := map[string]interface{}{"nonce": nonce}
	if extra != nil {
		args["extra"] = json.RawMessage(extra)
	}
	b, err := json.Marshal(map[string]interface{}{"jsonrpc": "2.0", "id": id, "method": "tools/call",
		"params": map[string]interface{}{"name": "t", "arguments": args}})
	if err != nil {
		panic(err)
	}
	return b
}

// c01Check: frame answers request (id, nonce): echoes the id and carries the result computed from that nonce.
func c01Check(frame interface{}, ok bool, id interface{}, nonce string) {
	vAssert("one-frame", ok)
	if !ok {
		return
	}
	res, hasRes, _, _ := verifResponse(frame, id)
	vAssert("has-result", hasRes)
	rm, _ := verifObj(res)
	content, _ := rm["content"].([]interface{})
	vAssert("one-content-item", len(content) == 1)
	if len(content) == 1 {
		item, _ := verifObj(content[0])
		text, _ := item["text"].(string)
		vAssert("result-from-own-arguments", text == "echo:"+nonce)
	}
}

func c01IDs() (interface{}, interface{}) {
	if vChoice("idKind", 2) == 0 {
		a, b := vString("id1", 8), vString("id2", 8)
		vAssume(a != b)
		return a, b
	}
	a, b := vInt64Range("n1", 0, 1<<53), vInt64Range("n2", 0, 1<<53)
	vAssume(a != b)
	return a, b
}

func c01Args(log *c01Log, k int, nonce string, extra []byte) {
	vAssert("handler-got-arguments", k < len(log.args))
	if k >= len(log.args) {
		return
	}
	got := log.args[k]
	n, _ := got["nonce"].(string)
	vAssert("handler-got-own-nonce", n == nonce)
	want, _ := verifParse(extra)
	vAssert("handler-got-own-extra", vSameJSON(got["extra"], want))
}

func H_C01_streamable_calls() {
	mode := vChoice("mode", 3) // 0 stateless JSON, 1 stateless SSE, 2 stateful JSON
	vRandConcrete(true)
	var opts []ServerOption
	accept := "application/json"
	switch mode {
	case 0:
		opts = append(opts, WithStatelessMode(true), WithPostSSEEnabled(false))
	case 1:
		opts = append(opts, WithStatelessMode(true))
		accept = "application/json, text/event-stream"
	default:
		opts = append(opts, WithPostSSEEnabled(false))
	}
	srv := NewServer("srv", "1.0", opts...)
	log := &c01Log{}
	srv.RegisterTool(NewTool("t"), log.handler)
	session := ""
	if mode == 2 {
		rec := newVerifRecorder()
		srv.httpHandler.ServeHTTP(rec, verifRequest("POST", "/mcp",
			[]byte(`{"jsonrpc":"2.0","id":0,"method":"initialize","params":{"protocolVersion":"2025-03-26"}}`), "Accept", accept))
		session = rec.header.Get("Mcp-Session-Id")
		vAssume(rec.code() == 200 && session != "")
	}
	id1, id2 := c01IDs()
	n1, n2 := vString("nonce1", 6), vString("nonce2", 6)
	x1, x2 := vJSON("extra1", 2), vJSON("extra2", 1)
	rec1 := newVerifRecorder()
	srv.httpHandler.ServeHTTP(rec1, verifRequest("POST", "/mcp", c01Call(id1, n1, x1), "Accept", accept, "Mcp-Session-Id", session))
	vAssert("first-handler-once", log.calls == 1)
	f1, ok1 := c03Frame(rec1, mode == 1)
	c01Check(f1, ok1 && rec1.code() == 200, c01Float(id1), n1)
	c01Args(log, 0, n1, x1)
	rec2 := newVerifRecorder()
	srv.httpHandler.ServeHTTP(rec2, verifRequest("POST", "/mcp", c01Call(id2, n2, x2), "Accept", accept, "Mcp-Session-Id", session))
	vAssert("second-handler-once", log.calls == 2)
	f2, ok2 := c03Frame(rec2, mode == 1)
	c01Check(f2, ok2 && rec2.code() == 200, c01Float(id2), n2)
	c01Args(log, 1, n2, x2)
	// the first exchange got nothing more
	vAssert("first-exchange-untouched", rec1.writes <= 4)
	vReach("end")
}

// c01Float: ids as a JSON reader sees them (integers become float64).
func c01Float(id interface{}) interface{} {
	if n, ok := id.(int64); ok {
		return float64(n)
	}
	return id
}

func H_C01_stdio_calls() {
	srv := NewStdioServer("srv", "1.0")
	log := &c01Log{}
	srv.RegisterTool(NewTool("t"), log.handler)
	tr := newStdioTransport(srv.internal)
	w := &verifWriter{}
	id1, id2 := c01IDs()
	n1, n2 := vString("nonce1", 6), vString("nonce2", 6)
	x1, x2 := vJSON("extra1", 2), vJSON("extra2", 1)
	tr.processMessage(context.Background(), string(c01Call(id1, n1, x1))+"\n", w)
	tr.processMessage(context.Background(), string(c01Call(id2, n2, x2))+"\n", w)
	vAssert("handler-twice", log.calls == 2)
	lines := strings.Split(strings.TrimSuffix(string(w.data), "\n"), "\n")
	vAssert("two-lines", len(lines) == 2)
	if len(lines) == 2 {
		f1, ok1 := verifParse([]byte(lines[0]))
		c01Check(f1, ok1, c01Float(id1), n1)
		f2, ok2 := verifParse([]byte(lines[1]))
		c01Check(f2, ok2, c01Float(id2), n2)
	}
	c01Args(log, 0, n1, x1)
	c01Args(log, 1, n2, x2)
	vReach("end")
}

func c01Event(session *sseSession) (interface{}, bool) {
	select {
	case ev := <-session.eventQueue:
		payload := strings.TrimSuffix(strings.TrimPrefix(ev, "event: message\ndata: "), "\n\n")
		return verifParse([]byte(payload))
	case <-time.After(300 * time.Millisecond):
	}
	return nil, false
}

func H_C01_sse_calls() {
	srv := NewSSEServer("srv", "1.0")
	log := &c01Log{}
	srv.RegisterTool(NewTool("t"), log.handler)
	session := &sseSession{done: make(chan struct{}), eventQueue: make(chan string, 100), sessionID: "s1",
		notificationChannel: make(chan *JSONRPCNotification, 100), data: make(map[string]interface{})}
	srv.sessions.Store("s1", session)
	id1, id2 := c01IDs()
	n1, n2 := vString("nonce1", 6), vString("nonce2", 6)
	x1, x2 := vJSON("extra1", 2), vJSON("extra2", 1)
	post := func(body []byte) int {
		rec := newVerifRecorder()
		req := verifRequest("POST", "/message", body)
		req.URL.RawQuery = "sessionId=s1"
		srv.ServeHTTP(rec, req)
		return rec.code()
	}
	vAssert("accepted-1", post(c01Call(id1, n1, x1)) == 202)
	f1, ok1 := c01Event(session)
	c01Check(f1, ok1, c01Float(id1), n1)
	vAssert("accepted-2", post(c01Call(id2, n2, x2)) == 202)
	f2, ok2 := c01Event(session)
	c01Check(f2, ok2, c01Float(id2), n2)
	vAssert("handler-twice", log.calls == 2)
	c01Args(log, 0, n1, x1)
	c01Args(log, 1, n2, x2)
	vAssert("no-extra-frame", len(session.eventQueue) == 0)
	vReach("end")
}

// H_C01_sse_queue_overflow: with the session's event queue holding n frames the answer is still delivered
// while the connection is up (or the POST is refused) - never silently dropped.
func H_C01_sse_queue_overflow() {
	srv := NewSSEServer("srv", "1.0")
	log := &c01Log{}
	srv.RegisterTool(NewTool("t"), log.handler)
	session := &sseSession{done: make(chan struct{}), eventQueue: make(chan string, 100), sessionID: "s1",
		notificationChannel: make(chan *JSONRPCNotification, 100), data: make(map[string]interface{})}
	srv.sessions.Store("s1", session)
	fill := []int{0, 1, 99, 100}[vChoice("fill", 4)]
	vChanFill(session.eventQueue, fill)
	rec := newVerifRecorder()
	req := verifRequest("POST", "/message", c01Call("a", "n", nil))
	req.URL.RawQuery = "sessionId=s1"
	srv.ServeHTTP(rec, req)
	vQuiesce()
	if rec.code() == 202 {
		if fill < 100 {
			vAssert("answer-queued-not-dropped", len(session.eventQueue) == fill+1)
		} else {
			// the queue is full: the answer waits for room; once the stream has taken one frame it is queued
			<-session.eventQueue
			vQuiesce()
			vAssert("answer-queued-not-dropped", len(session.eventQueue) == 100)
		}
		// exactly one of the queued frames is the answer to request "a"
		answers := 0
		for len(session.eventQueue) > 0 {
			ev := <-session.eventQueue
			if !strings.HasPrefix(ev, "event: message\ndata: ") {
				continue // a filler frame
			}
			payload := strings.TrimSuffix(strings.TrimPrefix(ev, "event: message\ndata: "), "\n\n")
			if doc, ok := verifParse([]byte(payload)); ok {
				if o, isObj := verifObj(doc); isObj && o["id"] == "a" {
					answers++
				}
			}
		}
		vAssert("exactly-one-answer", answers == 1)
	}
	vReach("end")
}
