//verif:pkg .
//verif:use fakes_client
//verif:bound client side: one call whose request id is an arbitrary integer 1..2^53 (the clients' own counters produce integers), answered by a scripted peer that echoes the id as a JSON number, optionally preceded by an answer carrying a different id; Streamable client with SSE answers, legacy SSE client, stdio client; StdioClient with two calls in flight (a pending tools/call and each of the six operations, after 0..2 earlier calls); stdio transport with a peer that answers inside the Write of the request, under every schedule with <= 2 (thorough 3) preemptions
//verif:assume fmt's %v of an integral float64 prints plain digits below 10^6 and exponent notation from 10^6 on (shortest 'g' formatting; checked against the real fmt by the native co-execution of every path witness)
package mcp

import (
	"context"
	"encoding/json"
	"net/http"
	"os/exec"
	"time"
)

func c01TextOf(res *CallToolResult) string {
	if res == nil || len(res.Content) != 1 {
		return ""
	}
	if tc, ok := res.Content[0].(TextContent); ok {
		return tc.Text
	}
	return ""
}

func c01Answer(id interface{}, text string) []byte {
	b, _ := json.Marshal(map[string]interface{}{"jsonrpc": "2.0", "id": id,
		"result": map[string]interface{}{"content": []interface{}{map[string]interface{}{"type": "text", "text": text}}}})
	return b
}

// H_C01_streamable_client_id: the answer with the request's own id is accepted, one with another id is not.
func H_C01_streamable_client_id() {
	n := vInt64Range("id", 1, 1<<53)
	other := vInt64Range("other", 1, 1<<53)
	vAssume(other != n)
	withDecoy := vBool("decoyFirst")
	net := &verifNet{}
	net.respond = func(s *verifSent) (*http.Response, error) {
		doc, _ := verifParse(s.body)
		obj, _ := verifObj(doc)
		id := obj["id"]
		var body []byte
		if withDecoy {
			body = append(body, []byte("id: 1\ndata: ")...)
			body = append(body, c01Answer(other, "not-yours")...)
			body = append(body, []byte("\n\n")...)
		}
		body = append(body, []byte("id: 2\ndata: ")...)
		body = append(body, c01Answer(id, "yours")...)
		body = append(body, []byte("\n\n")...)
		return verifResp(200, body, "Content-Type", "text/event-stream"), nil
	}
	c, err := NewClient("http://h.example/mcp", Implementation{Name: "c", Version: "1"}, WithHTTPReqHandler(&verifReqHandler{net: net}), WithClientGetSSEEnabled(false))
	if err != nil {
		panic(err)
	}
	c.initialized = true
	c.requestID.Store(n - 1)
	res, cerr := c.CallTool(context.Background(), &CallToolRequest{Params: CallToolParams{Name: "t"}})
	vAssert("call-completes-with-an-answer", cerr == nil)
	if cerr == nil {
		vAssert("call-gets-its-own-answer", c01TextOf(res) == "yours")
	}
	vReach("end")
}

// H_C01_legacy_client_id
func H_C01_legacy_client_id() {
	n := vInt64Range("id", 1, 1<<53)
	stream := newVerifStream()
	net := &verifNet{}
	net.respond = func(s *verifSent) (*http.Response, error) {
		if s.method == "GET" {
			stream.push([]byte("event: endpoint\ndata: /message?sessionId=abc\n\n"))
			return &http.Response{StatusCode: 200, Status: "200 OK", Header: http.Header{"Content-Type": []string{"text/event-stream"}}, Body: stream}, nil
		}
		doc, _ := verifParse(s.body)
		obj, _ := verifObj(doc)
		if id, hasID := obj["id"]; hasID {
			stream.push([]byte("event: message\ndata: " + string(c01Answer(id, "yours")) + "\n\n"))
		}
		return verifResp(202, nil), nil
	}
	c, err := NewSSEClient("http://h.example/sse", Implementation{Name: "c", Version: "1"}, WithHTTPReqHandler(&verifReqHandler{net: net}))
	if err != nil {
		panic(err)
	}
	c.initialized = true
	c.requestID.Store(n - 1)
	ctx, cancel := context.WithTimeout(context.Background(), 400*time.Millisecond)
	defer cancel()
	res, cerr := c.CallTool(ctx, &CallToolRequest{Params: CallToolParams{Name: "t"}})
	vAssert("call-completes-with-an-answer", cerr == nil)
	if cerr == nil {
		vAssert("call-gets-its-own-answer", c01TextOf(res) == "yours")
	}
	vReach("end")
}

type c01Pipe struct {
	onLine func(b []byte)
}

func (p *c01Pipe) Write(b []byte) (int, error) {
	p.onLine(b)
	return len(b), nil
}
func (p *c01Pipe) Close() error { return nil }

// H_C01_stdio_client_id
func H_C01_stdio_client_id() {
	n := vInt64Range("id", 1, 1<<53)
	other := vInt64Range("other", 1, 1<<53)
	vAssume(other != n)
	withDecoy := vBool("decoyFirst")
	out := newVerifStream()
	t := newStdioClientTransport(StdioServerParameters{Command: "none"}, withStdioTransportTimeout(400*time.Millisecond))
	in := &c01Pipe{}
	in.onLine = func(b []byte) {
		doc, _ := verifParse(b)
		obj, _ := verifObj(doc)
		if id, hasID := obj["id"]; hasID {
			if withDecoy {
				out.push(append(c01Answer(other, "not-yours"), '\n'))
			}
			out.push(append(c01Answer(id, "yours"), '\n'))
		}
	}
	t.process = &exec.Cmd{}
	t.stdin = in
	t.stdout = out
	t.encoder = json.NewEncoder(in)
	go t.readLoop()
	raw, err := t.sendRequest(context.Background(), &JSONRPCRequest{JSONRPC: "2.0", ID: n, Request: Request{Method: "tools/call"},
		Params: map[string]interface{}{"name": "t"}})
	vAssert("call-completes-with-an-answer", vAnd(err == nil, raw != nil))
	if err == nil && raw != nil {
		res, perr := parseCallToolResult(raw)
		vAssert("call-gets-its-own-answer", vAnd(perr == nil, c01TextOf(res) == "yours"))
	}
	vReach("end")
}

// H_C01_stdio_fast_peer: the peer answers while the caller is still inside its write, so the reader may dispatch
// the answer before the caller waits for it: under every schedule with <= 2 (thorough 3) preemptions the call
// still gets its answer.
func H_C01_stdio_fast_peer() {
	out := newVerifStream()
	t := newStdioClientTransport(StdioServerParameters{Command: "none"}, withStdioTransportTimeout(400*time.Millisecond))
	in := &c01Pipe{}
	in.onLine = func(b []byte) {
		doc, _ := verifParse(b)
		obj, _ := verifObj(doc)
		if id, hasID := obj["id"]; hasID {
			out.push(append(c01Answer(id, "yours"), '\n'))
		}
	}
	t.process = &exec.Cmd{}
	t.stdin = in
	t.stdout = out
	t.encoder = json.NewEncoder(in)
	go t.readLoop()
	budget := 2
	if vTier() == 1 {
		budget = 3
	}
	vSched(true, budget)
	raw, err := t.sendRequest(context.Background(), &JSONRPCRequest{JSONRPC: "2.0", ID: int64(7), Request: Request{Method: "tools/call"},
		Params: map[string]interface{}{"name": "t"}})
	vSched(false, 0)
	vAssert("call-completes-with-an-answer", vAnd(err == nil, raw != nil))
	if err == nil && raw != nil {
		res, perr := parseCallToolResult(raw)
		vAssert("call-gets-its-own-answer", vAnd(perr == nil, c01TextOf(res) == "yours"))
	}
	vReach("end")
}

// ---- StdioClient: two calls in flight ----

type c01Peer2 struct {
	out     *verifStream
	heldID  interface{}
	hasHeld bool
}

func (p *c01Peer2) Write(b []byte) (int, error) {
	doc, _ := verifParse(b)
	obj, _ := verifObj(doc)
	id, has := obj["id"]
	if !has {
		return len(b), nil
	}
	method, _ := obj["method"].(string)
	if method == "tools/call" && !p.hasHeld {
		// the slow call: answered only after the next request has been answered
		p.heldID, p.hasHeld = id, true
		return len(b), nil
	}
	var result string
	switch method {
	case "tools/list":
		result = `{"tools":[{"name":"fast","inputSchema":{"type":"object"}}]}`
	case "prompts/list":
		result = `{"prompts":[{"name":"fast"}]}`
	case "prompts/get":
		result = `{"description":"fast","messages":[]}`
	case "resources/list":
		result = `{"resources":[{"uri":"res://fast","name":"fast"}]}`
	case "resources/read":
		result = `{"contents":[{"uri":"res://fast","text":"fast"}]}`
	default:
		result = `{"content":[{"type":"text","text":"fast"}]}`
	}
	line, _ := json.Marshal(map[string]interface{}{"jsonrpc": "2.0", "id": id, "result": json.RawMessage(result)})
	p.out.push(append(line, '\n'))
	if p.hasHeld {
		p.out.push(append(c01Answer(p.heldID, "slow"), '\n'))
	}
	return len(b), nil
}
func (p *c01Peer2) Close() error { return nil }

// H_C01_stdio_two_in_flight: a slow tools/call is pending on a StdioClient while a second operation (each of the
// six) is issued and answered; then the slow call is answered. Each caller gets its own answer.
func H_C01_stdio_two_in_flight() {
	c, err := NewStdioClient(StdioTransportConfig{ServerParams: StdioServerParameters{Command: "none"}, Timeout: 400 * time.Millisecond},
		Implementation{Name: "c", Version: "1"})
	if err != nil {
		panic(err)
	}
	p := &c01Peer2{out: newVerifStream()}
	t := c.transport
	t.process = &exec.Cmd{}
	t.stdin = p
	t.stdout = p.out
	t.encoder = json.NewEncoder(p)
	go t.readLoop()
	c.initialized.Store(true)
	// some earlier traffic, so that the request counters are not at their initial values
	warm := vChoice("earlierCalls", 3)
	for i := 0; i < warm; i++ {
		c.ListResources(context.Background(), &ListResourcesRequest{})
	}
	op := vChoice("secondOp", 6)
	slowDone := make(chan struct{})
	var slowRes *CallToolResult
	var slowErr error
	go func() {
		slowRes, slowErr = c.CallTool(context.Background(), &CallToolRequest{Params: CallToolParams{Name: "slow"}})
		close(slowDone)
	}()
	vQuiesce()
	vAssume(p.hasHeld)
	ctx := context.Background()
	fast := ""
	var ferr error
	switch op {
	case 0:
		r, e := c.ListTools(ctx, &ListToolsRequest{})
		ferr = e
		if e == nil && len(r.Tools) == 1 {
			fast = r.Tools[0].Name
		}
	case 1:
		r, e := c.CallTool(ctx, &CallToolRequest{Params: CallToolParams{Name: "fast"}})
		ferr = e
		fast = c01TextOf(r)
	case 2:
		r, e := c.ListPrompts(ctx, &ListPromptsRequest{})
		ferr = e
		if e == nil && len(r.Prompts) == 1 {
			fast = r.Prompts[0].Name
		}
	case 3:
		r, e := c.GetPrompt(ctx, &GetPromptRequest{})
		ferr = e
		if e == nil {
			fast = r.Description
		}
	case 4:
		r, e := c.ListResources(ctx, &ListResourcesRequest{})
		ferr = e
		if e == nil && len(r.Resources) == 1 {
			fast = r.Resources[0].Name
		}
	default:
		r, e := c.ReadResource(ctx, &ReadResourceRequest{})
		ferr = e
		if e == nil && len(r.Contents) == 1 {
			if tc, ok := r.Contents[0].(TextResourceContents); ok {
				fast = tc.Text
			}
		}
	}
	vAssert("second-call-gets-its-own-answer", vAnd(ferr == nil, fast == "fast"))
	select {
	case <-slowDone:
	case <-time.After(time.Second):
	}
	vAssert("pending-call-gets-its-own-answer", vAnd(slowErr == nil, c01TextOf(slowRes) == "slow"))
	c.Close()
	p.out.end()
	vReach("end")
}
