//verif:pkg .
//verif:use streams_mcp
//verif:bound Streamable server: 2 (thorough 3) sessions, each with an open listening stream, without one, terminated, or with a stream whose writes fail, and 2 (thorough 3) sends each one of {SendNotification to a chosen session, BroadcastNotification, SendFilteredNotification with every subset filter} carrying a symbolic payload string (<= 4 chars): per-stream frame sequence equals the reference sequence, counts equal the number of streams reached; request/answer: a tool called by session A issues ListRoots, then up to 2 answers are posted by session A or B with a symbolic integer id (1..2^53) and distinct payloads; then cancellation or the 30 s timeout (virtual time, engine only); a server-issued request whose frame write fails (at the id line, the data line or the closing blank line; no byte or one byte taken), then a notification and a second request to the same session; legacy SSE server: the same with two sessions opened through GET /sse; stdio server: one session, notifications then a ListRoots from a tool, answer with symbolic id
//verif:assume the relative order of a notification and a request sent to the same legacy-SSE or stdio session (two channels drained by select) is not asserted: Go's select choice among ready channels cannot be forced in the native confirmation run; more than 3 sessions / 3 sends and concurrent senders are outside the bound
package mcp

import (
	"context"
	"encoding/json"
	"net/http"
	"strings"
	"time"
)

// c05Frames: the JSON-RPC messages on an SSE stream, in order.
func c05Frames(body string) []map[string]interface{} {
	var out []map[string]interface{}
	for _, line := range strings.Split(body, "\n") {
		if !strings.HasPrefix(line, "data: {") {
			continue
		}
		doc, ok := verifParse([]byte(strings.TrimPrefix(line, "data: ")))
		if !ok {
			continue
		}
		if m, ok := verifObj(doc); ok {
			out = append(out, m)
		}
	}
	return out
}

// c05Marks: params.m of every notification frame with method n/x, in order; payloadOK: every one carries p.
func c05Marks(frames []map[string]interface{}, p string) ([]string, bool) {
	var marks []string
	ok := true
	for _, f := range frames {
		if meth, _ := f["method"].(string); meth != "n/x" {
			continue
		}
		pm, _ := verifObj(f["params"])
		m, _ := pm["m"].(string)
		marks = append(marks, m)
		if pv, _ := pm["p"].(string); pv != p {
			ok = false
		}
	}
	return marks, ok
}

func c05Requests(frames []map[string]interface{}) []map[string]interface{} {
	var out []map[string]interface{}
	for _, f := range frames {
		if meth, _ := f["method"].(string); meth == "roots/list" {
			if _, has := f["id"]; has {
				out = append(out, f)
			}
		}
	}
	return out
}

func c05Same(a, b []string) bool {
	if len(a) != len(b) {
		return false
	}
	for i := range a {
		if a[i] != b[i] {
			return false
		}
	}
	return true
}

const (
	c05Open = iota
	c05NoStream
	c05Deleted
	c05Broken // stream open, but the peer is gone: every Write to it fails
)

// H_C05_streamable_routing: every send reaches exactly the addressed / selected sessions that have a stream.
func H_C05_streamable_routing() {
	vRandConcrete(true)
	srv := NewServer("srv", "1.0", WithPostSSEEnabled(false))
	n, k := 2, 2
	if vTier() == 1 {
		n, k = 3, 3
	}
	ids := make([]string, n)
	state := make([]int, n)
	st := make([]*c11Stream, n)
	for i := range ids {
		ids[i] = c11Session(srv)
		vAssume(ids[i] != "")
		for j := 0; j < i; j++ {
			vAssume(ids[j] != ids[i])
		}
		if i > 0 {
			state[i] = vChoice("state", 4)
		}
		if state[i] != c05NoStream {
			st[i] = c11Open(srv, ids[i], nil)
			vAssume(c11Wait(st[i].flushed))
		}
		if state[i] == c05Broken {
			st[i].rec.failFrom = st[i].rec.writes + 1
		}
		if state[i] == c05Deleted {
			rec := newVerifRecorder()
			srv.httpHandler.ServeHTTP(rec, verifRequest("DELETE", "/mcp", nil, "Mcp-Session-Id", ids[i]))
			vAssume(rec.code() == 200)
			vAssume(c11Wait(st[i].done))
		}
	}
	payload := vString("payload", 4)
	expected := make([][]string, n)
	for j := 0; j < k; j++ {
		mark := []string{"M0", "M1", "M2"}[j]
		params := map[string]interface{}{"m": mark, "p": payload}
		switch vChoice("kind", 3) {
		case 0:
			t := vChoice("target", n)
			err := srv.SendNotification(ids[t], "n/x", params)
			vAssert("send-succeeds-iff-stream-open", (err == nil) == (state[t] == c05Open))
			if state[t] == c05Open {
				expected[t] = append(expected[t], mark)
			}
		case 1:
			cnt, err := srv.BroadcastNotification("n/x", params)
			reached := 0
			for i := range ids {
				if state[i] == c05Open {
					reached++
					expected[i] = append(expected[i], mark)
				}
			}
			vAssert("broadcast-count-is-sessions-reached", cnt == reached)
			vAssert("broadcast-no-error-when-some-reached", err == nil)
		default:
			mask := vChoice("mask", 1<<uint(n))
			calls := 0
			sel := func(id string) bool {
				calls++
				for i := range ids {
					if ids[i] == id {
						return mask>>uint(i)&1 == 1
					}
				}
				return false
			}
			okCnt, _, err := srv.SendFilteredNotification("n/x", params, sel)
			reached := 0
			for i := range ids {
				if state[i] == c05Open && mask>>uint(i)&1 == 1 {
					reached++
					expected[i] = append(expected[i], mark)
				}
			}
			vAssert("filtered-count-is-sessions-reached", okCnt == reached)
			if reached > 0 {
				vAssert("filtered-no-error-when-some-reached", err == nil)
			}
		}
	}
	vQuiesce()
	for i := range ids {
		if st[i] == nil {
			continue
		}
		got, pOK := c05Marks(c05Frames(string(st[i].rec.body)), payload)
		vAssert("stream-carries-exactly-its-sends-in-order", c05Same(got, expected[i]))
		vAssert("payload-intact", pOK)
	}
	vReach("end")
}

func c05RootsBody(id interface{}, mark string) []byte {
	b, err := json.Marshal(map[string]interface{}{"jsonrpc": "2.0", "id": id,
		"result": map[string]interface{}{"roots": []interface{}{map[string]interface{}{"uri": "file:///" + mark, "name": mark}}}})
	if err != nil {
		panic(err)
	}
	return b
}

type c05Call struct {
	res  *ListRootsResult
	err  error
	done chan struct{}
}

func (c *c05Call) finished() bool {
	select {
	case <-c.done:
		return true
	default:
	}
	return false
}

// H_C05_streamable_answer_isolation: the answer accepted for a server-issued request is the one posted by
// the session it was sent to; nothing stays pending.
func H_C05_streamable_answer_isolation() {
	vRandConcrete(true)
	srv := NewServer("srv", "1.0", WithPostSSEEnabled(false))
	call := &c05Call{done: make(chan struct{})}
	srv.RegisterTool(NewTool("roots"), func(ctx context.Context, r *CallToolRequest) (*CallToolResult, error) {
		call.res, call.err = srv.ListRoots(ctx)
		close(call.done)
		return NewTextResult("ok"), nil
	})
	a, b := c11Session(srv), c11Session(srv)
	vAssume(a != "" && b != "" && a != b)
	sa, sb := c11Open(srv, a, nil), c11Open(srv, b, nil)
	vAssume(c11Wait(sa.flushed) && c11Wait(sb.flushed))
	ctx, cancel := context.WithCancel(context.Background())
	defer cancel()
	go func() {
		rec := newVerifRecorder()
		req := verifRequest("POST", "/mcp", []byte(`{"jsonrpc":"2.0","id":7,"method":"tools/call","params":{"name":"roots"}}`),
			"Accept", "application/json", "Content-Type", "application/json", "Mcp-Session-Id", a)
		srv.httpHandler.ServeHTTP(rec, req.WithContext(ctx))
	}()
	vQuiesce()
	reqs := c05Requests(c05Frames(string(sa.rec.body)))
	vAssert("request-on-the-callers-stream-once", len(reqs) == 1)
	vAssert("request-on-no-other-stream", len(c05Requests(c05Frames(string(sb.rec.body)))) == 0)
	if len(reqs) != 1 {
		return
	}
	rid, isNum := reqs[0]["id"].(float64)
	vAssume(isNum)
	accepted := ""
	for j := 0; j < 2; j++ {
		mark := []string{"R0", "R1"}[j]
		fromA := vChoice("poster", 2) == 0
		x := vInt64Range("answer-id", 1, 1<<53)
		from := b
		if fromA {
			from = a
		}
		rec := newVerifRecorder()
		srv.httpHandler.ServeHTTP(rec, verifRequest("POST", "/mcp", c05RootsBody(x, mark),
			"Accept", "application/json", "Content-Type", "application/json", "Mcp-Session-Id", from))
		vQuiesce()
		if accepted == "" && fromA && float64(x) == rid {
			accepted = mark
		}
		if accepted == "" {
			vAssert("not-answered-by-foreign-or-mismatched-post", !call.finished())
		} else {
			vAssert("answered-by-own-sessions-post", call.finished())
		}
		if call.finished() {
			break
		}
	}
	if accepted == "" && !call.finished() {
		if vChoice("end", 2) == 0 {
			cancel()
		} else {
			vNativeSkip("the 30 s answer timeout elapses in virtual time; a native run would really sleep")
			time.Sleep(31 * time.Second)
		}
		vQuiesce()
		vAssert("call-ends-on-cancel-or-timeout", call.finished())
		if call.finished() {
			vAssert("ended-call-reports-error", call.err != nil)
		}
	} else if call.finished() {
		vAssert("result-is-the-accepted-answer", vAnd(call.err == nil, call.res != nil))
		if call.err == nil && call.res != nil {
			vAssert("result-payload", vAnd(len(call.res.Roots) == 1, len(call.res.Roots) == 1 && call.res.Roots[0].Name == accepted))
		}
	}
	srv.httpHandler.responseManager.mutex.RLock()
	pending := len(srv.httpHandler.responseManager.pendingRequests)
	srv.httpHandler.responseManager.mutex.RUnlock()
	vAssert("nothing-left-pending", pending == 0)
	vReach("end")
}

// H_C05_streamable_write_failure: a server-issued request whose frame cannot be written leaves nothing pending.
func H_C05_streamable_write_failure() { c11StreamWriteFailure() }

// ---- legacy SSE server ----

type c05Gen struct{ n int }

func (g *c05Gen) GenerateSessionID(r *http.Request) string {
	g.n++
	return []string{"s1", "s2", "s3", "s4"}[g.n-1]
}

type c05Legacy struct {
	srv  *SSEServer
	ids  []string
	recs []*verifRecorder
	end  []context.CancelFunc
	done []chan struct{}
}

func (l *c05Legacy) post(id string, body []byte) int {
	rec := newVerifRecorder()
	req := verifRequest("POST", "/message", body, "Content-Type", "application/json")
	req.URL.RawQuery = "sessionId=" + id
	l.srv.ServeHTTP(rec, req)
	return rec.code()
}

// c05LegacySetup opens n sessions through GET /sse and completes the MCP handshake on each.
func c05LegacySetup(n int, opts ...SSEOption) *c05Legacy {
	l := &c05Legacy{}
	l.srv = NewSSEServer("srv", "1.0", append([]SSEOption{WithSSESessionIDGenerator(&c05Gen{})}, opts...)...)
	for i := 0; i < n; i++ {
		rec := newVerifRecorder()
		ctx, cancel := context.WithCancel(context.Background())
		done := make(chan struct{})
		go func() {
			l.srv.ServeHTTP(rec, verifRequest("GET", "/sse", nil, "Accept", "text/event-stream").WithContext(ctx))
			close(done)
		}()
		vQuiesce()
		id := []string{"s1", "s2", "s3", "s4"}[i]
		vAssume(strings.Contains(string(rec.body), "sessionId="+id))
		l.ids = append(l.ids, id)
		l.recs = append(l.recs, rec)
		l.end = append(l.end, cancel)
		l.done = append(l.done, done)
	}
	for _, id := range l.ids {
		l.post(id, []byte(`{"jsonrpc":"2.0","id":100,"method":"initialize","params":{"protocolVersion":"2024-11-05","clientInfo":{"name":"c","version":"1"},"capabilities":{}}}`))
		vQuiesce()
		l.post(id, []byte(`{"jsonrpc":"2.0","method":"notifications/initialized"}`))
		vQuiesce()
	}
	return l
}

// H_C05_legacy_routing: SendNotification on the legacy SSE server reaches exactly the addressed session.
func H_C05_legacy_routing() {
	n, k := 2, 2
	if vTier() == 1 {
		n, k = 3, 3
	}
	l := c05LegacySetup(n)
	closed := make([]bool, n)
	for i := 1; i < n; i++ {
		if vChoice("closed", 2) == 1 {
			closed[i] = true
			l.end[i]()
			vAssume(c11Wait(l.done[i]))
		}
	}
	payload := vString("payload", 4)
	expected := make([][]string, n)
	for j := 0; j < k; j++ {
		mark := []string{"M0", "M1", "M2"}[j]
		t := vChoice("target", n)
		err := l.srv.SendNotification(l.ids[t], "n/x", map[string]interface{}{"m": mark, "p": payload})
		vAssert("send-succeeds-iff-stream-open", (err == nil) == !closed[t])
		if !closed[t] {
			expected[t] = append(expected[t], mark)
		}
	}
	vQuiesce()
	for i := range l.ids {
		got, pOK := c05Marks(c05Frames(string(l.recs[i].body)), payload)
		vAssert("stream-carries-exactly-its-sends-in-order", c05Same(got, expected[i]))
		vAssert("payload-intact", pOK)
	}
	vReach("end")
}

func c05LegacyPending(srv *SSEServer) int {
	srv.responsesMu.RLock()
	defer srv.responsesMu.RUnlock()
	return len(srv.responses)
}

// H_C05_legacy_answer_isolation: two legacy sessions; a tool called by s1 issues ListRoots.
func H_C05_legacy_answer_isolation() {
	l := c05LegacySetup(2)
	call := &c05Call{done: make(chan struct{})}
	l.srv.RegisterTool(NewTool("roots"), func(ctx context.Context, r *CallToolRequest) (*CallToolResult, error) {
		call.res, call.err = l.srv.ListRoots(ctx)
		close(call.done)
		return NewTextResult("ok"), nil
	})
	a, b := l.ids[0], l.ids[1]
	l.post(a, []byte(`{"jsonrpc":"2.0","id":7,"method":"tools/call","params":{"name":"roots"}}`))
	vQuiesce()
	reqs := c05Requests(c05Frames(string(l.recs[0].body)))
	vAssert("request-on-the-callers-stream-once", len(reqs) == 1)
	vAssert("request-on-no-other-stream", len(c05Requests(c05Frames(string(l.recs[1].body)))) == 0)
	if len(reqs) != 1 {
		return
	}
	rid, isNum := reqs[0]["id"].(float64)
	vAssume(isNum)
	accepted := ""
	for j := 0; j < 2; j++ {
		mark := []string{"R0", "R1"}[j]
		fromA := vChoice("poster", 2) == 0
		x := vInt64Range("answer-id", 1, 1<<53)
		from := b
		if fromA {
			from = a
		}
		l.post(from, c05RootsBody(x, mark))
		vQuiesce()
		if accepted == "" && fromA && float64(x) == rid {
			accepted = mark
		}
		if accepted == "" {
			vAssert("not-answered-by-foreign-or-mismatched-post", !call.finished())
		} else {
			vAssert("answered-by-own-sessions-post", call.finished())
		}
		if call.finished() {
			break
		}
	}
	if accepted == "" && !call.finished() {
		vNativeSkip("the 30 s answer timeout elapses in virtual time; a native run would really sleep")
		time.Sleep(31 * time.Second)
		vQuiesce()
		vAssert("call-ends-on-timeout", call.finished())
		if call.finished() {
			vAssert("ended-call-reports-error", call.err != nil)
		}
	} else if call.finished() {
		vAssert("result-is-the-accepted-answer", vAnd(call.err == nil, call.res != nil))
		if call.err == nil && call.res != nil {
			vAssert("result-payload", vAnd(len(call.res.Roots) == 1, len(call.res.Roots) == 1 && call.res.Roots[0].Name == accepted))
		}
	}
	vAssert("nothing-left-pending", c05LegacyPending(l.srv) == 0)
	vReach("end")
}

// ---- stdio server (one session) ----

func H_C05_stdio_request_answer() {
	srv := NewStdioServer("srv", "1.0")
	call := &c05Call{done: make(chan struct{})}
	srv.RegisterTool(NewTool("roots"), func(ctx context.Context, r *CallToolRequest) (*CallToolResult, error) {
		call.res, call.err = srv.ListRoots(ctx)
		close(call.done)
		return NewTextResult("ok"), nil
	})
	tr := newStdioTransport(srv.internal)
	w := &verifWriter{}
	ctx, cancel := context.WithCancel(context.Background())
	defer cancel()
	go tr.handleOutgoingMessages(ctx, w)
	callCtx, cancelCall := context.WithCancel(ctx)
	go tr.processMessage(callCtx, `{"jsonrpc":"2.0","id":7,"method":"tools/call","params":{"name":"roots"}}`+"\n", w)
	vQuiesce()
	var reqs []map[string]interface{}
	for _, line := range strings.Split(string(w.data), "\n") {
		if doc, ok := verifParse([]byte(line)); ok {
			if m, ok := verifObj(doc); ok {
				reqs = append(reqs, m)
			}
		}
	}
	reqs = c05Requests(reqs)
	vAssert("request-written-once", len(reqs) == 1)
	if len(reqs) != 1 {
		return
	}
	rid, isNum := reqs[0]["id"].(float64)
	vAssume(isNum)
	accepted := ""
	for j := 0; j < 2; j++ {
		mark := []string{"R0", "R1"}[j]
		x := vInt64Range("answer-id", 1, 1<<53)
		tr.processMessage(ctx, string(c05RootsBody(x, mark))+"\n", w)
		vQuiesce()
		if accepted == "" && float64(x) == rid {
			accepted = mark
		}
		if accepted == "" {
			vAssert("not-answered-by-mismatched-id", !call.finished())
		} else {
			vAssert("answered-by-matching-id", call.finished())
		}
		if call.finished() {
			break
		}
	}
	if accepted == "" && !call.finished() {
		if vChoice("end", 2) == 0 {
			cancelCall()
		} else {
			vNativeSkip("the 30 s answer timeout elapses in virtual time; a native run would really sleep")
			time.Sleep(31 * time.Second)
		}
		vQuiesce()
		vAssert("call-ends-on-cancel-or-timeout", call.finished())
		if call.finished() {
			vAssert("ended-call-reports-error", call.err != nil)
		}
	} else if call.finished() {
		vAssert("result-is-the-accepted-answer", vAnd(call.err == nil, call.res != nil))
		if call.err == nil && call.res != nil {
			vAssert("result-payload", vAnd(len(call.res.Roots) == 1, len(call.res.Roots) == 1 && call.res.Roots[0].Name == accepted))
		}
	}
	srv.responsesMu.RLock()
	pending := len(srv.responses)
	srv.responsesMu.RUnlock()
	vAssert("nothing-left-pending", pending == 0)
	cancelCall()
	vReach("end")
}
