//verif:pkg internal/retry
//verif:bound Validate: all int64 MaxRetries/InitialBackoff/MaxBackoff and all float64 BackoffFactor (incl. NaN, +-Inf, -0)
//verif:bound classifier: status 100..999 (Int theory), body over printable ASCII without A-Z (the classifier lower-cases its input first; cvc5 str.to_lower on a symbolic body does not terminate in useful time), <= 16 chars (quick) / 24 (thorough)
//verif:bound Execute: MaxRetries 0..10 symbolic, outcome per attempt in {ok, transient, permanent}, cancellation at any attempt or never; concrete backoff settings
//verif:bound backoff: attempt k in 1..2 quick / 1..10 thorough, validated symbolic config (FP theory)
//verif:assume classifier harnesses rebuild the transports' error templates ("%w: status code %d" / "%w: status code %d, body: %s" over errors.New("HTTP request failed")); the mcp-level harness (c17_transport.go) drives the real send paths
//verif:assume strings are bytes 0x20..0x7e; strings.ToLower = cvc5 str.to_lower (ASCII A-Z only, identical on this alphabet)
package retry

import (
	"context"
	"errors"
	"fmt"
	"time"
)

func H_C17_validate() {
	c := Config{
		MaxRetries:     vInt("mr"),
		InitialBackoff: time.Duration(vInt64("ib")),
		BackoffFactor:  vFloat64("bf"),
		MaxBackoff:     time.Duration(vInt64("mb")),
	}
	v := c.Validate()
	vAssert("retries-range", vAnd(v.MaxRetries >= 0, v.MaxRetries <= 10))
	vAssert("initial-range", vAnd(v.InitialBackoff >= time.Millisecond, v.InitialBackoff <= 30*time.Second))
	vAssert("factor-range", vAnd(v.BackoffFactor >= 1, v.BackoffFactor <= 10))
	vAssert("max-range", vAnd(v.MaxBackoff >= v.InitialBackoff, v.MaxBackoff <= 5*time.Minute))
	w := v.Validate()
	vAssert("idempotent", vAnd(vAnd(w.MaxRetries == v.MaxRetries, w.InitialBackoff == v.InitialBackoff),
		vAnd(vSame(w.BackoffFactor, v.BackoffFactor), w.MaxBackoff == v.MaxBackoff)))
	// values already in range are kept
	inRange := vAnd(vAnd(vAnd(c.MaxRetries >= 0, c.MaxRetries <= 10), vAnd(c.InitialBackoff >= time.Millisecond, c.InitialBackoff <= 30*time.Second)),
		vAnd(vAnd(c.BackoffFactor >= 1, c.BackoffFactor <= 10), vAnd(c.MaxBackoff >= c.InitialBackoff, c.MaxBackoff <= 5*time.Minute)))
	vAssert("in-range-kept", vImplies(inRange, vAnd(vAnd(v.MaxRetries == c.MaxRetries, v.InitialBackoff == c.InitialBackoff),
		vAnd(vSame(v.BackoffFactor, c.BackoffFactor), v.MaxBackoff == c.MaxBackoff))))
	vReach("end")
}

func transientStatus(status int) bool {
	return vOr(vOr(status == 408, status == 409), vOr(status == 429, vAnd(status >= 500, status <= 599)))
}

func H_C17_classify_streamable() {
	status := vIntRange("status", 100, 999)
	base := errors.New("HTTP request failed")
	err := fmt.Errorf("%w: status code %d", base, status)
	r := IsRetryableError(err)
	vAssert("retry-implies-transient", vImplies(r, transientStatus(status)))
	// the documented standard codes are all retried
	std := vOr(vOr(status == 408, status == 409), vOr(status == 429, vAnd(status >= 500, status <= 511)))
	vAssert("standard-transient-retried", vImplies(std, r))
	vReach("end")
}

func H_C17_classify_legacy() {
	status := vIntRange("status", 100, 999)
	n := 16
	if vTier() == 1 {
		n = 24
	}
	body := vStringLower("body", n)
	base := errors.New("HTTP request failed")
	err := fmt.Errorf("%w: status code %d, body: %s", base, status, body)
	r := IsRetryableError(err)
	vAssert("retry-implies-transient", vImplies(r, transientStatus(status)))
	vReach("end")
}

func H_C17_classify_network() {
	// every listed network failure text is retried, wrapped or not; nil and JSON-RPC style errors are not
	k := vChoice("kind", 8)
	msgs := []string{"connection refused", "connection reset by peer", "i/o timeout", "EOF", "read tcp: EOF", "dial timeout", "connection timeout", "write timeout"}
	e := errors.New(msgs[k])
	vAssert("network-retried", IsRetryableError(e))
	vAssert("wrapped-network-retried", IsRetryableError(fmt.Errorf("%w: %v", errors.New("HTTP request failed"), e)))
	vAssert("nil-not-retried", !IsRetryableError(nil))
	code := vIntRange("code", -32768, -32000)
	vAssert("jsonrpc-error-not-retried", !IsRetryableError(fmt.Errorf("JSON-RPC error %d: invalid params", code)))
	vReach("end")
}

var errTransient = errors.New("connection refused")
var errPermanent = errors.New("bad request")

// H_C17_execute: attempt accounting against a reference computed from the same script.
func H_C17_execute() {
	mr := vIntRange("mr", 0, 10)
	cfg := &Config{MaxRetries: mr, InitialBackoff: 10 * time.Millisecond, BackoffFactor: 2, MaxBackoff: 40 * time.Millisecond}
	cancelAt := vIntRange("cancelAt", 0, 12) // 0 = never; k = the k-th attempt cancels the context before returning
	ctx, cancel := context.WithCancel(context.Background())
	defer cancel()
	calls := 0
	var outcomes [12]int
	op := func() error {
		calls++
		if calls > 11 {
			return errPermanent
		}
		o := vIntRange("o", 0, 2)
		outcomes[calls] = o
		if calls == cancelAt {
			cancel()
		}
		switch o {
		case 0:
			return nil
		case 1:
			return errTransient
		}
		return errPermanent
	}
	err := Execute(ctx, op, cfg, "op")
	vAssert("attempts-bounded", calls <= mr+1)
	vAssert("at-least-one", calls >= 1)
	// reference: attempts = 1 + leading transient failures, capped, stopped by cancellation
	last := outcomes[calls]
	for i := 1; i < calls; i++ {
		vAssert("retry-only-after-transient", outcomes[i] == 1)
		vAssert("no-attempt-after-cancel", vOr(cancelAt == 0, i < cancelAt))
	}
	if last == 0 {
		vAssert("success-returns-nil", err == nil)
	} else if last == 2 {
		vAssert("permanent-returned", err == errPermanent)
	} else {
		// transient on the last attempt: either retries exhausted or cancelled
		if cancelAt != 0 && cancelAt <= calls && calls < mr+1 {
			vAssert("cancel-returns-ctx-err", err == context.Canceled)
		} else {
			vAssert("exhausted", vAnd(calls == mr+1, err == errTransient))
		}
	}
	vReach("end")
}

// H_C17_nil_config: without configuration exactly one attempt, whatever it returns.
func H_C17_nil_config() {
	calls := 0
	o := vIntRange("o", 0, 2)
	op := func() error {
		calls++
		switch o {
		case 0:
			return nil
		case 1:
			return errTransient
		}
		return errPermanent
	}
	var err error
	if vBool("nilcfg") {
		err = Execute(context.Background(), op, nil, "op")
	} else {
		err = Execute(context.Background(), op, &Config{MaxRetries: 0, InitialBackoff: time.Second, BackoffFactor: 2, MaxBackoff: time.Second}, "op")
	}
	vAssert("exactly-one", calls == 1)
	vAssert("result-passed", vOr(vAnd(o == 0, err == nil), vOr(vAnd(o == 1, err == errTransient), vAnd(o == 2, err == errPermanent))))
	vReach("end")
}

// H_C17_backoff: the k-th wait is min(Initial*Factor^(k-1), Max) and never negative.
func H_C17_backoff() {
	vNativeSkip("the harness observes the argument of time.After, which a native run can only observe by really sleeping")
	c := Config{MaxRetries: 10, InitialBackoff: time.Duration(vInt64("ib")), BackoffFactor: vFloat64("bf"), MaxBackoff: time.Duration(vInt64("mb"))}
	// documented ranges (what Validate promises); NaN excluded here, it is H_C17_validate's finding
	vAssume(vAnd(c.InitialBackoff >= time.Millisecond, c.InitialBackoff <= 30*time.Second))
	vAssume(vAnd(c.BackoffFactor >= 1, c.BackoffFactor <= 10))
	vAssume(vAnd(c.MaxBackoff >= c.InitialBackoff, c.MaxBackoff <= 5*time.Minute))
	kmax := 2
	if vTier() == 1 {
		kmax = 4
	}
	k := vChoice("k", kmax) + 1 // number of the wait we look at
	calls := 0
	op := func() error {
		calls++
		if calls <= k {
			return errTransient
		}
		return nil
	}
	err := Execute(context.Background(), op, &c, "op")
	vAssert("succeeds-after-k", vAnd(err == nil, calls == k+1))
	vAssert("k-waits", vEnvCalls() == k)
	w := vEnvCallArg(k - 1)
	vAssert("wait-nonnegative", w >= 0)
	vAssert("wait-capped", w <= c.MaxBackoff)
	// reference product computed the same way in float64
	m := 1.0
	for i := 1; i < k; i++ {
		m *= c.BackoffFactor
	}
	ref := float64(c.InitialBackoff) * m
	vAssert("wait-is-formula", vOr(vAnd(ref > float64(c.MaxBackoff), w == c.MaxBackoff), vAnd(ref <= float64(c.MaxBackoff), w == time.Duration(ref))))
	vReach("end")
}
