//verif:pkg .
//verif:use streams_mcp
//verif:bound one session, an old listening stream and a new one; deterministic kernels: (a) a send issued at the very moment the new stream's headers are flushed, (b) a send after the old stream's handler has exited, (c) a stream whose request context ends removes only itself, (c') a notification Write stalled on the old stream fails or completes after the new stream took over; exploration kernels: (d) old GET, new GET and a sender, (e) an old stream ending through its own request context while a new GET registers, then a send as three goroutines under all schedules at the modelled synchronisation points with <= 2 (thorough 3) forced context switches (engine only)
//verif:assume more than one reconnect generation and real network timing are outside the claim
package mcp

import (
	"context"
	"net/http"
	"time"
)

// H_C11_send_at_header_flush: the new stream's headers reach the client; a notification sent at that very
// moment succeeds and arrives on the new stream.
func H_C11_send_at_header_flush() {
	vRandConcrete(true)
	srv := NewServer("srv", "1.0", WithPostSSEEnabled(false))
	id := c11Session(srv)
	vAssume(id != "")
	old := c11Open(srv, id, nil)
	vAssume(c11Wait(old.flushed))
	var sendErr error
	sentCh := make(chan struct{})
	nw := c11Open(srv, id, func() {
		// the client reacts to the headers at once: a send starts at this very moment (in its own
		// goroutine, as a real sender would be)
		go func() {
			sendErr = srv.SendNotification(id, "n/marker", map[string]interface{}{"m": "MARK1"})
			close(sentCh)
		}()
		// give the sender a head start inside the flush window (it may have to wait for the stream's
		// write lock until the flush is over)
		select {
		case <-sentCh:
		case <-time.After(100 * time.Millisecond):
		}
	})
	vAssert("new-stream-headers", c11Wait(nw.flushed))
	vAssert("send-issued", c11Wait(sentCh))
	vAssert("send-after-headers-succeeds", sendErr == nil)
	vQuiesce()
	vAssert("delivered-on-new-stream", c11Has(nw.rec, "MARK1"))
	vAssert("not-on-old-stream", !c11Has(old.rec, "MARK1"))
	vReach("end")
}

// H_C11_send_after_old_exit: once the old handler has torn down, the session still owns the new stream.
func H_C11_send_after_old_exit() {
	vRandConcrete(true)
	srv := NewServer("srv", "1.0", WithPostSSEEnabled(false))
	id := c11Session(srv)
	vAssume(id != "")
	old := c11Open(srv, id, nil)
	vAssume(c11Wait(old.flushed))
	nw := c11Open(srv, id, nil)
	vAssert("new-stream-headers", c11Wait(nw.flushed))
	vAssert("old-stream-closed", c11Wait(old.done))
	err := srv.SendNotification(id, "n/marker", map[string]interface{}{"m": "MARK2"})
	vAssert("send-after-reconnect-succeeds", err == nil)
	vAssert("delivered-on-new-stream", c11Has(nw.rec, "MARK2"))
	// a server request addressed to the session also goes out on the new stream
	go srv.SendRequest(context.Background(), id, &JSONRPCRequest{JSONRPC: "2.0", ID: "r1", Request: Request{Method: "roots/list"}})
	vQuiesce()
	vAssert("request-on-new-stream", c11Has(nw.rec, "roots/list"))
	vReach("end")
}

// H_C11_inflight_write_on_old_stream_fails: a notification is being written to the old stream (its Write is
// stalled) when a new GET replaces that stream; the stalled Write then fails (or completes). The failure of the
// old stream must not touch the new one: the session still owns the new stream and a send arrives on it.
func H_C11_inflight_write_on_old_stream_fails() {
	vRandConcrete(true)
	srv := NewServer("srv", "1.0", WithPostSSEEnabled(false))
	id := c11Session(srv)
	vAssume(id != "")
	old := c11Open(srv, id, nil)
	vAssume(c11Wait(old.flushed))
	fails := vBool("stalledWriteFails")
	gate := make(chan struct{})
	stalled := make(chan struct{}, 1)
	first := true
	old.rec.onWrite = func() {
		if !first {
			return
		}
		first = false
		stalled <- struct{}{}
		<-gate
		if fails {
			old.rec.failFrom = old.rec.writes + 1
		}
	}
	firstDone := make(chan struct{})
	go func() {
		srv.SendNotification(id, "n/marker", map[string]interface{}{"m": "MARK-OLD"})
		close(firstDone)
	}()
	vAssume(c11Wait(stalled))
	nw := c11Open(srv, id, nil)
	vAssert("new-stream-headers", c11Wait(nw.flushed))
	close(gate)
	vAssert("stalled-send-returns", c11Wait(firstDone))
	vQuiesce()
	err := srv.SendNotification(id, "n/marker", map[string]interface{}{"m": "MARK-NEW"})
	vAssert("send-after-reconnect-succeeds", err == nil)
	vAssert("delivered-on-new-stream", c11Has(nw.rec, "MARK-NEW"))
	select {
	case <-nw.done:
		vAssert("new-stream-still-open", false)
	default:
	}
	vReach("end")
}

// H_C11_stream_end_removes_only_itself: the newer stream of a session ends (its request context is
// cancelled); afterwards nothing is registered for the session, and an unrelated session keeps its stream.
func H_C11_stream_end_removes_only_itself() {
	vRandConcrete(true)
	srv := NewServer("srv", "1.0", WithPostSSEEnabled(false))
	a, b := c11Session(srv), c11Session(srv)
	vAssume(a != "" && b != "" && a != b)
	sa := c11Open(srv, a, nil)
	sb := c11Open(srv, b, nil)
	vAssume(c11Wait(sa.flushed) && c11Wait(sb.flushed))
	sa.cancel()
	vAssert("ended-stream-returns", c11Wait(sa.done))
	errA := srv.SendNotification(a, "n/x", map[string]interface{}{"m": "MARKA"})
	errB := srv.SendNotification(b, "n/x", map[string]interface{}{"m": "MARKB"})
	vAssert("ended-stream-is-unregistered", errA != nil)
	vAssert("other-session-unaffected", vAnd(errB == nil, c11Has(sb.rec, "MARKB")))
	vReach("end")
}

var _ = http.StatusOK

// H_C11_explore: old stream registered; a new GET and a sender (which waits for the new stream's headers)
// run as goroutines under every schedule the engine can produce at synchronisation points.
func H_C11_explore() {
	vRandConcrete(true)
	srv := NewServer("srv", "1.0", WithPostSSEEnabled(false))
	id := c11Session(srv)
	vAssume(id != "")
	old := c11Open(srv, id, nil)
	vAssume(c11Wait(old.flushed))
	budget := 2
	if vTier() == 1 {
		budget = 3
	}
	vSched(true, budget)
	nw := c11Open(srv, id, nil)
	var sendErr error
	sent := make(chan struct{})
	go func() {
		<-nw.flushed
		sendErr = srv.SendNotification(id, "n/marker", map[string]interface{}{"m": "MARK3"})
		close(sent)
	}()
	<-sent
	vSched(false, 0)
	vAssert("send-after-headers-succeeds", sendErr == nil)
	vQuiesce()
	vAssert("delivered-on-new-stream", c11Has(nw.rec, "MARK3"))
	vAssert("old-stream-closed", c11Wait(old.done))
	err2 := srv.SendNotification(id, "n/marker", map[string]interface{}{"m": "MARK4"})
	vAssert("still-owned-after-old-exit", vAnd(err2 == nil, c11Has(nw.rec, "MARK4")))
	vReach("end")
}

// H_C11_explore_old_ends_itself: the old stream ends for its own reason (its request context is cancelled)
// while a new GET for the same session is being registered; a sender waits for the new stream's headers.
// Every schedule with a bounded number of preemptions at synchronisation operations.
func H_C11_explore_old_ends_itself() {
	vRandConcrete(true)
	srv := NewServer("srv", "1.0", WithPostSSEEnabled(false))
	id := c11Session(srv)
	vAssume(id != "")
	old := c11Open(srv, id, nil)
	vAssume(c11Wait(old.flushed))
	budget := 2
	if vTier() == 1 {
		budget = 3
	}
	vSched(true, budget)
	old.cancel()
	nw := c11Open(srv, id, nil)
	<-nw.flushed
	<-old.done
	vSched(false, 0)
	err := srv.SendNotification(id, "n/marker", map[string]interface{}{"m": "MARK5"})
	vAssert("send-after-headers-succeeds", err == nil)
	vQuiesce()
	vAssert("delivered-on-new-stream", c11Has(nw.rec, "MARK5"))
	vAssert("not-on-old-stream", !c11Has(old.rec, "MARK5"))
	vReach("end")
}
