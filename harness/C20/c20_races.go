//verif:pkg .
//verif:use fakes_client
//verif:use fakes_mcp
//verif:use streams_mcp
//verif:bound two-goroutine workloads, each under every schedule with <= 1 (thorough 2) preemptions at synchronisation operations, under the engine's vector-clock happens-before detector (every access to a Go variable, field, map or slice element made by interpreted code is checked against the last conflicting access), each reported pair confirmed with go test -race: server: two sessions initializing concurrently; a request being served || {tool registration, SendNotification, BroadcastNotification, session termination, GET stream opening}; session objects read and written from two goroutines; a server-issued request written to a listening stream || {SendNotification, BroadcastNotification, a second server-issued request} for the same session; a listening stream ending {client gone, session deleted, replaced by a new GET} || {SendNotification, BroadcastNotification, server-issued request} to its session, the recording ResponseWriter modelling net/http's unsynchronised finishing step after the handler returns; legacy SSE server: a writer goroutine's Write stalled while the client goes away (forced order, asserted: the handler does not return while a Write is in progress); Streamable client: a call || {the listening stream receiving an event, the listening stream connecting, Close, a notification-handler registration, a roots-provider change, GetSessionID / GetState}; legacy SSE client and stdio client transport: a call || {Close, notification delivery}
//verif:assume workloads with more than two concurrently active goroutines of the library, and the interleavings inside net/http and os/exec, are outside the bound; schedules needing more preemptions than the bound are not explored; a race the free-running go test -race run does not show is confirmed on a -race build of an instrumented copy that replays the engine's order of synchronisation operations
package mcp

import (
	"context"
	"encoding/json"
	"net/http"
	"os/exec"
	"time"
)

// c20Both runs a and b in two goroutines under every schedule with at most one (thorough: two) preemptions
// at synchronisation operations: locks create incidental happens-before edges, so whether an unprotected
// access is ordered after a protected one depends on the interleaving.
func c20Both(a, b func()) { c20BothN(a, b, 1) }

// c20BothN: quick budget of preemptions (thorough: one more); 0 = the run-to-block schedule only.
func c20BothN(a, b func(), budget int) {
	if vTier() == 1 && budget > 0 {
		budget++
	}
	done := make(chan struct{}, 2)
	start := make(chan struct{})
	// stagger: one side starts a little later than the other. A sleep orders nothing, so every unordered pair of
	// accesses is still a race, but which side takes a shared lock first is then the same in the engine and in
	// the native -race run (an access made after an unlock is only unordered with the other side's accesses if
	// this side had the lock first).
	stagger := vChoice("stagger", 3)
	vSched(true, budget)
	// both sides start from a common barrier so that they really overlap in the native -race run
	go func() {
		<-start
		if stagger == 1 {
			time.Sleep(300 * time.Microsecond)
		}
		a()
		done <- struct{}{}
	}()
	go func() {
		<-start
		if stagger == 2 {
			time.Sleep(300 * time.Microsecond)
		}
		b()
		done <- struct{}{}
	}()
	close(start)
	<-done
	<-done
	vSched(false, 0)
}

func c20Post(srv *Server, body string, session string) *verifRecorder {
	rec := newVerifRecorder()
	srv.httpHandler.ServeHTTP(rec, verifRequest("POST", "/mcp", []byte(body), "Accept", "application/json", "Content-Type", "application/json", "Mcp-Session-Id", session))
	return rec
}

const c20Init = `{"jsonrpc":"2.0","id":0,"method":"initialize","params":{"protocolVersion":"2025-03-26","clientInfo":{"name":"c","version":"1"},"capabilities":{}}}`

// H_C20_server_two_initializes: two clients performing the handshake at the same time.
func H_C20_server_two_initializes() {
	vRandConcrete(true)
	srv := NewServer("srv", "1.0", WithPostSSEEnabled(false))
	srv.RegisterPrompt(&Prompt{Name: "p"}, nil)
	vRace(true)
	c20Both(func() { c20Post(srv, c20Init, "") }, func() { c20Post(srv, c20Init, "") })
	vReach("end")
}

// H_C20_server_request_vs_admin: a tools/call being served while the application uses the server object.
func H_C20_server_request_vs_admin() {
	vRandConcrete(true)
	srv := NewServer("srv", "1.0", WithPostSSEEnabled(false))
	srv.RegisterTool(NewTool("t"), func(ctx context.Context, r *CallToolRequest) (*CallToolResult, error) {
		if s := ClientSessionFromContext(ctx); s != nil {
			s.SetData("k", "v")
			s.GetData("k")
			s.GetLastActivity()
		}
		return NewTextResult("ok"), nil
	})
	a, b := c11Session(srv), c11Session(srv)
	vAssume(a != "" && b != "" && a != b)
	sa := c11Open(srv, a, nil)
	vAssume(c11Wait(sa.flushed))
	op := vChoice("admin", 7)
	vRace(true)
	c20Both(func() {
		c20Post(srv, `{"jsonrpc":"2.0","id":1,"method":"tools/call","params":{"name":"t"}}`, a)
	}, func() {
		switch op {
		case 0:
			srv.RegisterTool(NewTool("u"), func(ctx context.Context, r *CallToolRequest) (*CallToolResult, error) { return NewTextResult("u"), nil })
		case 1:
			srv.SendNotification(a, "n/x", map[string]interface{}{"m": "1"})
		case 2:
			srv.BroadcastNotification("n/x", map[string]interface{}{"m": "2"})
		case 3:
			rec := newVerifRecorder()
			srv.httpHandler.ServeHTTP(rec, verifRequest("DELETE", "/mcp", nil, "Mcp-Session-Id", b))
		case 4:
			sb := c11Open(srv, b, nil)
			c11Wait(sb.flushed)
		case 5:
			c20Post(srv, `{"jsonrpc":"2.0","id":2,"method":"tools/call","params":{"name":"t"}}`, a)
		default:
			srv.GetActiveSessions()
			if s, ok := srv.httpHandler.sessionManager.getSession(a); ok {
				s.GetLastActivity()
				s.GetData("k")
			}
		}
	})
	vRace(false)
	vReach("end")
}

// H_C20_server_issued_request_vs: a server-issued request written to a session's listening stream while the
// application sends a notification or a second request to the same session.
func H_C20_server_issued_request_vs() {
	vRandConcrete(true)
	srv := NewServer("srv", "1.0", WithPostSSEEnabled(false))
	a := c11Session(srv)
	vAssume(a != "")
	sa := c11Open(srv, a, nil)
	vAssume(c11Wait(sa.flushed))
	// the requests' contexts are over already: each is registered and written, then returns without an answer
	ctx, cancel := context.WithCancel(context.Background())
	cancel()
	op := vChoice("other", 3)
	vRace(true)
	c20Both(func() {
		srv.httpHandler.SendRequest(ctx, a, newJSONRPCRequest(nil, MethodRootsList, nil))
	}, func() {
		switch op {
		case 0:
			srv.SendNotification(a, "n/x", map[string]interface{}{"m": "1"})
		case 1:
			srv.BroadcastNotification("n/x", map[string]interface{}{"m": "2"})
		default:
			srv.httpHandler.SendRequest(ctx, a, newJSONRPCRequest(nil, MethodRootsList, nil))
		}
	})
	vRace(false)
	vReach("end")
}

// H_C20_stream_end_vs_send: a session's listening stream ends (its client goes away, the session is deleted, or a
// new GET replaces it) while the application sends to that session. Once the stream's handler has returned,
// net/http finishes the response; a sender that still writes to that ResponseWriter races with it.
func H_C20_stream_end_vs_send() {
	vRandConcrete(true)
	srv := NewServer("srv", "1.0", WithPostSSEEnabled(false))
	a := c11Session(srv)
	vAssume(a != "")
	sa := c11Open(srv, a, nil)
	vAssume(c11Wait(sa.flushed))
	ctx, cancel := context.WithCancel(context.Background())
	cancel()
	how := vChoice("streamEnds", 3)
	send := vChoice("send", 3)
	vRace(true)
	c20Both(func() {
		switch how {
		case 0:
			sa.cancel()
		case 1:
			rec := newVerifRecorder()
			srv.httpHandler.ServeHTTP(rec, verifRequest("DELETE", "/mcp", nil, "Mcp-Session-Id", a))
		default:
			sb := c11Open(srv, a, nil)
			c11Wait(sb.flushed)
		}
		c11Wait(sa.done)
	}, func() {
		switch send {
		case 0:
			srv.SendNotification(a, "n/x", map[string]interface{}{"m": "1"})
		case 1:
			srv.BroadcastNotification("n/x", map[string]interface{}{"m": "2"})
		default:
			srv.httpHandler.SendRequest(ctx, a, newJSONRPCRequest(nil, MethodRootsList, nil))
		}
	})
	vRace(false)
	vReach("end")
}

// H_C20_streamable_stalled_write_vs_stream_end: the deterministic form of H_C20_stream_end_vs_send: a Write to the
// listening stream is stalled when the client goes away or the session is deleted; the stream's handler must
// not return while that Write is in progress.
func H_C20_streamable_stalled_write_vs_stream_end() {
	vRandConcrete(true)
	srv := NewServer("srv", "1.0", WithPostSSEEnabled(false))
	a := c11Session(srv)
	vAssume(a != "")
	sa := c11Open(srv, a, nil)
	vAssume(c11Wait(sa.flushed))
	ctx, cancel := context.WithCancel(context.Background())
	cancel()
	send := vChoice("send", 2)
	how := vChoice("streamEnds", 2)
	gate := make(chan struct{})
	stalled := make(chan struct{}, 1)
	first, late := true, false
	sa.rec.onWrite = func() {
		if !first {
			return
		}
		first = false
		stalled <- struct{}{}
		<-gate
		if sa.rec.finished {
			late = true
		}
	}
	go func() {
		if send == 0 {
			srv.SendNotification(a, "n/x", map[string]interface{}{"m": "1"})
		} else {
			srv.httpHandler.SendRequest(ctx, a, newJSONRPCRequest(nil, MethodRootsList, nil))
		}
	}()
	vAssume(c11Wait(stalled))
	if how == 0 {
		sa.cancel()
	} else {
		go func() {
			rec := newVerifRecorder()
			srv.httpHandler.ServeHTTP(rec, verifRequest("DELETE", "/mcp", nil, "Mcp-Session-Id", a))
		}()
	}
	returned := c11Wait(sa.done)
	close(gate)
	vQuiesce()
	vAssert("no-write-in-progress-when-the-stream-handler-returns", !late)
	if !returned {
		vAssert("handler-returns-once-the-write-is-over", c11Wait(sa.done))
	}
	vReach("end")
}

// H_C20_session_object: a session handed to user code, read and written from two goroutines.
func H_C20_session_object() {
	vRandConcrete(true)
	srv := NewServer("srv", "1.0", WithPostSSEEnabled(false))
	id := c11Session(srv)
	vAssume(id != "")
	s, ok := srv.httpHandler.sessionManager.getSession(id)
	vAssume(ok)
	op := vChoice("reader", 4)
	vRace(true)
	c20Both(func() {
		s.UpdateActivity()
		s.SetData("k", 1)
	}, func() {
		switch op {
		case 0:
			s.GetLastActivity()
		case 1:
			s.GetData("k")
		case 2:
			s.GetCreatedAt()
			s.GetID()
		default:
			s.SetData("j", 2)
			s.UpdateActivity()
		}
	})
	vRace(false)
	vReach("end")
}

// ---- Streamable client ----

func c20Answer(id interface{}) []byte {
	b, _ := json.Marshal(map[string]interface{}{"jsonrpc": "2.0", "id": id,
		"result": map[string]interface{}{"content": []interface{}{map[string]interface{}{"type": "text", "text": "ok"}}}})
	return b
}

type c20Peer struct {
	net    *verifNet
	stream *verifStream
}

// c20Client: a Streamable client whose peer answers every POST with JSON (and a session id) and serves the
// listening stream from a scripted stream.
func c20Client(getSSE bool) (*Client, *c20Peer) {
	p := &c20Peer{net: &verifNet{}, stream: newVerifStream()}
	p.net.respond = func(s *verifSent) (*http.Response, error) {
		if s.method == "GET" {
			return &http.Response{StatusCode: 200, Status: "200 OK", Header: http.Header{"Content-Type": []string{"text/event-stream"}}, Body: p.stream}, nil
		}
		if s.method == "DELETE" {
			return verifResp(200, nil), nil
		}
		doc, _ := verifParse(s.body)
		obj, _ := verifObj(doc)
		id, has := obj["id"]
		if !has {
			return verifResp(202, nil, "Mcp-Session-Id", "sess-1"), nil
		}
		if m, _ := obj["method"].(string); m == "initialize" {
			b, _ := json.Marshal(map[string]interface{}{"jsonrpc": "2.0", "id": id, "result": map[string]interface{}{
				"protocolVersion": "2025-03-26", "serverInfo": map[string]interface{}{"name": "s", "version": "1"}, "capabilities": map[string]interface{}{}}})
			return verifResp(200, b, "Content-Type", "application/json", "Mcp-Session-Id", "sess-1"), nil
		}
		return verifResp(200, c20Answer(id), "Content-Type", "application/json", "Mcp-Session-Id", "sess-1"), nil
	}
	c, err := NewClient("http://h.example/mcp", Implementation{Name: "c", Version: "1"}, WithHTTPReqHandler(&verifReqHandler{net: p.net}), WithClientGetSSEEnabled(getSSE))
	if err != nil {
		panic(err)
	}
	return c, p
}

func c20Call(c *Client) {
	ctx, cancel := context.WithTimeout(context.Background(), 300*time.Millisecond)
	c.CallTool(ctx, &CallToolRequest{Params: CallToolParams{Name: "t"}})
	cancel()
}

// H_C20_client_handshake_then_call: Initialize (which starts the listening stream in the background), then a
// call straight away.
func H_C20_client_handshake_then_call() {
	c, p := c20Client(true)
	vRace(true)
	_, err := c.Initialize(context.Background(), &InitializeRequest{})
	vAssume(err == nil)
	c20Call(c)
	vQuiesce()
	p.stream.push([]byte("id: e1\ndata: {\"jsonrpc\":\"2.0\",\"method\":\"n/x\",\"params\":{}}\n\n"))
	vQuiesce()
	c20Call(c)
	vRace(false)
	c.Close()
	p.stream.end()
	vReach("end")
}

// H_C20_client_call_vs: a call while another goroutine uses the same client.
func H_C20_client_call_vs() {
	c, p := c20Client(true)
	_, err := c.Initialize(context.Background(), &InitializeRequest{})
	vAssume(err == nil)
	vQuiesce()
	op := vChoice("other", 8)
	vRace(true)
	c20Both(func() { c20Call(c) }, func() {
		switch op {
		case 0:
			c20Call(c)
		case 1:
			p.stream.push([]byte("id: e2\ndata: {\"jsonrpc\":\"2.0\",\"method\":\"n/x\",\"params\":{}}\n\n"))
			vQuiesce()
		case 2:
			c.Close()
		case 3:
			c.RegisterNotificationHandler("n/x", func(n *JSONRPCNotification) error { return nil })
		case 4:
			c.SetRootsProvider(nil)
		case 5:
			c.GetSessionID()
			c.GetState()
		case 6:
			c.TerminateSession(context.Background())
		default:
			c.ListTools(context.Background(), &ListToolsRequest{})
		}
	})
	vQuiesce()
	vRace(false)
	c.Close()
	p.stream.end()
	vReach("end")
}

// ---- legacy SSE client and stdio client transport ----

func H_C20_legacy_client_call_vs() {
	stream := newVerifStream()
	net := &verifNet{}
	net.respond = func(s *verifSent) (*http.Response, error) {
		if s.method == "GET" {
			stream.push([]byte("event: endpoint\ndata: /message?sessionId=abc\n\n"))
			return &http.Response{StatusCode: 200, Status: "200 OK", Header: http.Header{"Content-Type": []string{"text/event-stream"}}, Body: stream}, nil
		}
		doc, _ := verifParse(s.body)
		obj, _ := verifObj(doc)
		if id, has := obj["id"]; has {
			stream.push([]byte("event: message\ndata: " + string(c20Answer(id)) + "\n\n"))
		}
		return verifResp(202, nil), nil
	}
	c, err := NewSSEClient("http://h.example/sse", Implementation{Name: "c", Version: "1"}, WithHTTPReqHandler(&verifReqHandler{net: net}))
	if err != nil {
		panic(err)
	}
	c.initialized = true
	c20Call(c)
	op := vChoice("other", 4)
	vRace(true)
	c20Both(func() { c20Call(c) }, func() {
		switch op {
		case 0:
			c20Call(c)
		case 1:
			stream.push([]byte("event: message\ndata: {\"jsonrpc\":\"2.0\",\"method\":\"n/x\",\"params\":{}}\n\n"))
			vQuiesce()
		case 2:
			c.RegisterNotificationHandler("n/x", func(n *JSONRPCNotification) error { return nil })
		default:
			c.Close()
		}
	})
	vQuiesce()
	vRace(false)
	c.Close()
	vReach("end")
}

type c20Pipe struct {
	out *verifStream
}

func (p *c20Pipe) Write(b []byte) (int, error) {
	doc, _ := verifParse(b)
	obj, _ := verifObj(doc)
	if id, has := obj["id"]; has {
		p.out.push(append(c20Answer(id), '\n'))
	}
	return len(b), nil
}
func (p *c20Pipe) Close() error { return nil }

func H_C20_stdio_transport_call_vs() {
	out := newVerifStream()
	t := newStdioClientTransport(StdioServerParameters{Command: "none"}, withStdioTransportTimeout(300*time.Millisecond))
	t.process = &exec.Cmd{}
	t.stdin = &c20Pipe{out: out}
	t.stdout = out
	t.encoder = json.NewEncoder(t.stdin)
	go t.readLoop()
	call := func(id int64) {
		t.sendRequest(context.Background(), &JSONRPCRequest{JSONRPC: "2.0", ID: id, Request: Request{Method: "tools/call"}, Params: map[string]interface{}{"name": "t"}})
	}
	op := vChoice("other", 4)
	vRace(true)
	c20Both(func() { call(1) }, func() {
		switch op {
		case 0:
			call(2)
		case 1:
			out.push([]byte("{\"jsonrpc\":\"2.0\",\"method\":\"n/x\",\"params\":{}}\n"))
			vQuiesce()
		case 2:
			t.registerNotificationHandler("n/x", func(n *JSONRPCNotification) error { return nil })
		default:
			t.close()
		}
	})
	vQuiesce()
	vRace(false)
	t.close()
	vReach("end")
}

// ---- legacy SSE server and stdio server ----

type c20Gen struct{ n int }

func (g *c20Gen) GenerateSessionID(r *http.Request) string {
	g.n++
	return []string{"s1", "s2", "s3", "s4"}[g.n-1]
}

func c20LegacyOpen(srv *SSEServer) (*verifRecorder, context.CancelFunc, chan struct{}) {
	rec := newVerifRecorder()
	ctx, cancel := context.WithCancel(context.Background())
	done := make(chan struct{})
	go func() {
		srv.ServeHTTP(rec, verifRequest("GET", "/sse", nil, "Accept", "text/event-stream").WithContext(ctx))
		rec.finished = true // what net/http does next: finish the response, unsynchronised
		close(done)
	}()
	vQuiesce()
	return rec, cancel, done
}

func c20LegacyPost(srv *SSEServer, id, body string) {
	rec := newVerifRecorder()
	req := verifRequest("POST", "/message", []byte(body), "Content-Type", "application/json")
	req.URL.RawQuery = "sessionId=" + id
	srv.ServeHTTP(rec, req)
}

func H_C20_legacy_server_request_vs() {
	srv := NewSSEServer("srv", "1.0", WithSSESessionIDGenerator(&c20Gen{}))
	srv.RegisterTool(NewTool("t"), func(ctx context.Context, r *CallToolRequest) (*CallToolResult, error) {
		if s := ClientSessionFromContext(ctx); s != nil {
			s.SetData("k", "v")
			s.GetLastActivity()
		}
		return NewTextResult("ok"), nil
	})
	_, cancel1, done1 := c20LegacyOpen(srv)
	c20LegacyPost(srv, "s1", c20Init)
	vQuiesce()
	c20LegacyPost(srv, "s1", `{"jsonrpc":"2.0","method":"notifications/initialized"}`)
	vQuiesce()
	op := vChoice("other", 6)
	vRace(true)
	// the session's three writer goroutines make the schedule space too large for exploration here: the
	// run-to-block schedule only (the select choices among ready channels are still explored)
	c20BothN(func() {
		c20LegacyPost(srv, "s1", `{"jsonrpc":"2.0","id":1,"method":"tools/call","params":{"name":"t"}}`)
		vQuiesce()
	}, func() {
		switch op {
		case 0:
			c20LegacyPost(srv, "s1", `{"jsonrpc":"2.0","id":2,"method":"tools/call","params":{"name":"t"}}`)
		case 1:
			srv.SendNotification("s1", "n/x", map[string]interface{}{"m": "1"})
		case 2:
			srv.RegisterTool(NewTool("u"), func(ctx context.Context, r *CallToolRequest) (*CallToolResult, error) { return NewTextResult("u"), nil })
		case 3:
			_, cancel2, _ := c20LegacyOpen(srv)
			defer cancel2()
		case 4:
			cancel1()
			<-done1
		default:
			c20LegacyPost(srv, "s1", `{"jsonrpc":"2.0","id":3,"method":"tools/list"}`)
		}
		vQuiesce()
	}, 0)
	vQuiesce()
	vRace(false)
	cancel1()
	vReach("end")
}

// H_C20_legacy_stream_end_vs_send: a legacy SSE session's stream ends (its client goes away) while a notification
// or the answer to a request is on its way to that stream through the session's writer goroutines.
func H_C20_legacy_stream_end_vs_send() {
	srv := NewSSEServer("srv", "1.0", WithSSESessionIDGenerator(&c20Gen{}))
	srv.keepAlive = false
	srv.RegisterTool(NewTool("t"), func(ctx context.Context, r *CallToolRequest) (*CallToolResult, error) { return NewTextResult("ok"), nil })
	_, cancel1, done1 := c20LegacyOpen(srv)
	c20LegacyPost(srv, "s1", c20Init)
	vQuiesce()
	c20LegacyPost(srv, "s1", `{"jsonrpc":"2.0","method":"notifications/initialized"}`)
	vQuiesce()
	send := vChoice("send", 2)
	vRace(true)
	c20BothN(func() {
		if send == 0 {
			srv.SendNotification("s1", "n/x", map[string]interface{}{"m": "1"})
		} else {
			c20LegacyPost(srv, "s1", `{"jsonrpc":"2.0","id":1,"method":"tools/call","params":{"name":"t"}}`)
		}
	}, func() {
		cancel1()
		<-done1
	}, 0)
	vQuiesce()
	vRace(false)
	vReach("end")
}

// H_C20_legacy_stalled_write_vs_stream_end: one of the session's writer goroutines is inside a Write to the
// stream (stalled by the recorder) when the client goes away. net/http finishes the response as soon as the
// handler returns, so the handler must not return while that Write is in progress (the deterministic form of
// the race: here the order is forced, so it is stated as an assertion).
func H_C20_legacy_stalled_write_vs_stream_end() {
	srv := NewSSEServer("srv", "1.0", WithSSESessionIDGenerator(&c20Gen{}))
	srv.keepAlive = false
	srv.RegisterTool(NewTool("t"), func(ctx context.Context, r *CallToolRequest) (*CallToolResult, error) { return NewTextResult("ok"), nil })
	rec, cancel1, done1 := c20LegacyOpen(srv)
	c20LegacyPost(srv, "s1", c20Init)
	vQuiesce()
	c20LegacyPost(srv, "s1", `{"jsonrpc":"2.0","method":"notifications/initialized"}`)
	vQuiesce()
	send := vChoice("send", 2)
	gate := make(chan struct{})
	stalled := make(chan struct{}, 1)
	first, late := true, false
	rec.onWrite = func() {
		if !first {
			return
		}
		first = false
		stalled <- struct{}{}
		<-gate
		if rec.finished {
			late = true
		}
	}
	go func() {
		if send == 0 {
			srv.SendNotification("s1", "n/x", map[string]interface{}{"m": "1"})
		} else {
			c20LegacyPost(srv, "s1", `{"jsonrpc":"2.0","id":1,"method":"tools/call","params":{"name":"t"}}`)
		}
	}()
	vAssume(c11Wait(stalled))
	cancel1()
	returned := c11Wait(done1)
	close(gate)
	vQuiesce()
	vAssert("no-write-in-progress-when-the-stream-handler-returns", !late)
	if !returned {
		vAssert("handler-returns-once-the-write-is-over", c11Wait(done1))
	}
	vReach("end")
}

func H_C20_stdio_server_request_vs() {
	srv := NewStdioServer("srv", "1.0")
	srv.RegisterTool(NewTool("t"), func(ctx context.Context, r *CallToolRequest) (*CallToolResult, error) { return NewTextResult("ok"), nil })
	tr := newStdioTransport(srv.internal)
	w := &c20Writer{}
	ctx, cancel := context.WithCancel(context.Background())
	defer cancel()
	go tr.handleOutgoingMessages(ctx, w)
	op := vChoice("other", 4)
	vRace(true)
	c20Both(func() {
		tr.processMessage(ctx, `{"jsonrpc":"2.0","id":1,"method":"tools/call","params":{"name":"t"}}`+"\n", w)
	}, func() {
		switch op {
		case 0:
			tr.processMessage(ctx, `{"jsonrpc":"2.0","id":2,"method":"tools/list"}`+"\n", w)
		case 1:
			srv.RegisterTool(NewTool("u"), func(ctx context.Context, r *CallToolRequest) (*CallToolResult, error) { return NewTextResult("u"), nil })
		case 2:
			tr.processMessage(ctx, c20Init+"\n", w)
		default:
			tr.session.notifications <- *NewJSONRPCNotificationFromMap("n/x", map[string]interface{}{"m": "1"})
			vQuiesce()
		}
	})
	vQuiesce()
	vRace(false)
	vReach("end")
}

// c20Writer: an io.Writer that is itself safe for concurrent use (as os.Stdout is).
type c20Writer struct {
	mu   chan struct{}
	data []byte
}

func (w *c20Writer) Write(p []byte) (int, error) {
	if w.mu == nil {
		return len(p), nil
	}
	return len(p), nil
}
