//verif:pkg .
//verif:bound client state machine: one-step induction from both rest states {fresh/closed/failed, initialized} over every Connector operation x every transport outcome {transport error, JSON-RPC error answer, undecodable answer, valid answer} x notification {ok, fails}; plus all histories of length <= 2 (quick) / 3 (thorough) from a fresh client
//verif:assume the Client's transport is replaced by a counting fake implementing the package's httpTransport interface
package mcp

import (
	"context"
	"encoding/json"
	"errors"

	"trpc.group/trpc-go/trpc-mcp-go/internal/retry"
)

type c16Transport struct {
	requests      int
	notifications int
	closes        int
	terminates    int
	lastMethod    string
}

func (t *c16Transport) start(ctx context.Context) error { return nil }
func (t *c16Transport) sendRequest(ctx context.Context, req *JSONRPCRequest) (*json.RawMessage, error) {
	t.requests++
	t.lastMethod = req.Method
	switch vChoice("answer", 4) {
	case 0:
		return nil, errors.New("transport failure")
	case 1:
		raw := json.RawMessage(`{"jsonrpc":"2.0","id":1,"error":{"code":-32603,"message":"nope"}}`)
		return &raw, nil
	case 2:
		raw := json.RawMessage(`"garbage"`)
		return &raw, nil
	}
	var raw json.RawMessage
	switch req.Method {
	case MethodInitialize:
		raw = json.RawMessage(`{"protocolVersion":"2025-03-26","serverInfo":{"name":"s","version":"1"},"capabilities":{}}`)
	case MethodToolsList:
		raw = json.RawMessage(`{"tools":[]}`)
	case MethodToolsCall:
		raw = json.RawMessage(`{"content":[{"type":"text","text":"hi"}]}`)
	case MethodPromptsList:
		raw = json.RawMessage(`{"prompts":[]}`)
	case MethodPromptsGet:
		raw = json.RawMessage(`{"messages":[]}`)
	case MethodResourcesList:
		raw = json.RawMessage(`{"resources":[]}`)
	default:
		raw = json.RawMessage(`{"contents":[]}`)
	}
	return &raw, nil
}
func (t *c16Transport) sendNotification(ctx context.Context, n *JSONRPCNotification) error {
	t.notifications++
	if vChoice("notify", 2) == 1 {
		return errors.New("notification failed")
	}
	return nil
}
func (t *c16Transport) sendResponse(ctx context.Context, resp *JSONRPCResponse) error { return nil }
func (t *c16Transport) close() error                                                   { t.closes++; return nil }
func (t *c16Transport) setRetryConfig(config *retry.Config)                            {}
func (t *c16Transport) getSessionID() string                                           { return "" }
func (t *c16Transport) setSessionID(sessionID string)                                  {}
func (t *c16Transport) terminateSession(ctx context.Context) error                     { t.terminates++; return nil }

func c16NewClient() (*Client, *c16Transport) {
	c, err := NewClient("http://127.0.0.1:1/mcp", Implementation{Name: "c", Version: "1"})
	if err != nil {
		panic(err)
	}
	ft := &c16Transport{}
	c.transport = ft
	return c, ft
}

// c16Op runs operation k and reports (error, whether it is a guarded operation).
func c16Op(c *Client, k int) (error, bool) {
	ctx := context.Background()
	switch k {
	case 1:
		_, err := c.ListTools(ctx, &ListToolsRequest{})
		return err, true
	case 2:
		_, err := c.CallTool(ctx, &CallToolRequest{Params: CallToolParams{Name: "t"}})
		return err, true
	case 3:
		_, err := c.ListPrompts(ctx, &ListPromptsRequest{})
		return err, true
	case 4:
		_, err := c.GetPrompt(ctx, &GetPromptRequest{})
		return err, true
	case 5:
		_, err := c.ListResources(ctx, &ListResourcesRequest{})
		return err, true
	case 6:
		_, err := c.ReadResource(ctx, &ReadResourceRequest{})
		return err, true
	case 7:
		return c.SendRootsListChangedNotification(ctx), true
	}
	return nil, false
}

func c16Consistent(c *Client) bool {
	return vAnd((c.GetState() == StateInitialized) == c.initialized, vOr(c.GetState() == StateInitialized, c.GetState() == StateDisconnected))
}

// H_C16_client_step: one arbitrary operation from each rest state.
func H_C16_client_step() {
	c, ft := c16NewClient()
	vAssert("fresh-consistent", vAnd(c16Consistent(c), c.GetState() == StateDisconnected))
	pre := vChoice("pre", 3) // 0 fresh, 1 initialized, 2 initialized then closed
	if pre >= 1 {
		_, err := c.Initialize(context.Background(), &InitializeRequest{})
		vAssume(err == nil)
		vAssert("init-ok-state", vAnd(c.initialized, c.GetState() == StateInitialized))
		vAssert("init-traffic", vAnd(ft.requests == 1, ft.notifications == 1))
		if pre == 2 {
			c.Close()
			vAssert("closed-state", vAnd(!c.initialized, c.GetState() == StateDisconnected))
		}
	}
	wasInit := c.initialized
	r0, n0 := ft.requests, ft.notifications
	op := vChoice("op", 10) // 0 Initialize, 1..7 operations, 8 Close, 9 TerminateSession
	switch {
	case op == 0:
		res, err := c.Initialize(context.Background(), &InitializeRequest{})
		if wasInit {
			vAssert("second-handshake-refused", vAnd(err != nil, res == nil))
			vAssert("second-handshake-no-traffic", vAnd(ft.requests == r0, ft.notifications == n0))
			vAssert("second-handshake-keeps-state", vAnd(c.initialized, c.GetState() == StateInitialized))
		} else if err == nil {
			vAssert("handshake-ok", vAnd(c.initialized, c.GetState() == StateInitialized))
			vAssert("handshake-traffic", vAnd(ft.requests == r0+1, ft.notifications == n0+1))
		} else {
			vAssert("failed-handshake-uninitialized", vAnd(!c.initialized, c.GetState() == StateDisconnected))
			vAssert("failed-handshake-no-result", res == nil)
		}
	case op <= 7:
		err, _ := c16Op(c, op)
		if !wasInit {
			vAssert("not-initialized-error", err != nil)
			vAssert("no-traffic-before-handshake", vAnd(ft.requests == r0, ft.notifications == n0))
		} else {
			vAssert("one-message", ft.requests+ft.notifications == r0+n0+1)
		}
		vAssert("operation-keeps-flag", c.initialized == wasInit)
	case op == 8:
		c.Close()
		vAssert("close-uninitializes", vAnd(!c.initialized, c.GetState() == StateDisconnected))
	default:
		c.TerminateSession(context.Background())
		vAssert("terminate-keeps-flag", c.initialized == wasInit)
	}
	vAssert("consistent-after", c16Consistent(c))
	vReach("end")
}

// H_C16_client_history: every short history from a fresh client keeps flag and state consistent
// and sends nothing while uninitialized (except the handshake itself).
func H_C16_client_history() {
	c, ft := c16NewClient()
	n := 2
	if vTier() == 1 {
		n = 3
	}
	for i := 0; i < n; i++ {
		wasInit := c.initialized
		r0, n0 := ft.requests, ft.notifications
		op := vChoice("op", 4) // 0 Initialize, 1 CallTool, 2 ListResources, 3 Close
		switch op {
		case 0:
			c.Initialize(context.Background(), &InitializeRequest{})
		case 1:
			_, err := c.CallTool(context.Background(), &CallToolRequest{Params: CallToolParams{Name: "t"}})
			if !wasInit {
				vAssert("guarded", vAnd(err != nil, vAnd(ft.requests == r0, ft.notifications == n0)))
			}
		case 2:
			_, err := c.ListResources(context.Background(), &ListResourcesRequest{})
			if !wasInit {
				vAssert("guarded", vAnd(err != nil, vAnd(ft.requests == r0, ft.notifications == n0)))
			}
		default:
			c.Close()
		}
		vAssert("consistent", c16Consistent(c))
	}
	vReach("end")
}
