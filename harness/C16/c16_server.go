//verif:pkg .
//verif:bound version strings: printable ASCII, length <= 12; registries: every subset of {tool, prompt, resource} registered
//verif:assume NewZapLogger is stubbed by a no-op logger (zap is not interpreted)
package mcp

import "context"

// H_C16_version: for every requested version string the answer carries a supported version,
// the requested one whenever it is supported, the server's latest otherwise.
func H_C16_version() {
	v := vString("version", 12)
	lm := newLifecycleManager(Implementation{Name: "srv", Version: "1.2.3"})
	req := &JSONRPCRequest{JSONRPC: "2.0", ID: 1, Request: Request{Method: MethodInitialize},
		Params: map[string]interface{}{"protocolVersion": v}}
	out, err := lm.handleInitialize(context.Background(), req, nil)
	vAssert("no-error", err == nil)
	res, ok := out.(InitializeResult)
	vAssert("is-result", ok)
	supported := vOr(res.ProtocolVersion == ProtocolVersion_2024_11_05, res.ProtocolVersion == ProtocolVersion_2025_03_26)
	vAssert("answer-supported", supported)
	reqSupported := vOr(v == ProtocolVersion_2024_11_05, v == ProtocolVersion_2025_03_26)
	vAssert("echo-when-supported", vImplies(reqSupported, res.ProtocolVersion == v))
	vAssert("latest-otherwise", vImplies(!reqSupported, res.ProtocolVersion == ProtocolVersion_2025_03_26))
	vAssert("server-info", vAnd(res.ServerInfo.Name == "srv", res.ServerInfo.Version == "1.2.3"))
	vReach("end")
}

// H_C16_capabilities: tools always, prompts/resources exactly when registered at that time.
func H_C16_capabilities() {
	h := newMCPHandler()
	hasPrompt := vBool("prompt")
	hasResource := vBool("resource")
	hasTool := vBool("tool")
	if hasTool {
		h.toolManager.registerTool(&Tool{Name: "t"}, func(ctx context.Context, r *CallToolRequest) (*CallToolResult, error) { return nil, nil })
	}
	if hasPrompt {
		h.promptManager.registerPrompt(&Prompt{Name: "p"}, func(ctx context.Context, r *GetPromptRequest) (*GetPromptResult, error) { return nil, nil })
	}
	if hasResource {
		h.resourceManager.registerResource(&Resource{URI: "file:///x", Name: "x"}, func(ctx context.Context, r *ReadResourceRequest) (ResourceContents, error) { return nil, nil })
	}
	req := &JSONRPCRequest{JSONRPC: "2.0", ID: "a", Request: Request{Method: MethodInitialize},
		Params: map[string]interface{}{"protocolVersion": ProtocolVersion_2025_03_26}}
	out, err := h.handleRequest(context.Background(), req, nil)
	vAssert("no-error", err == nil)
	res, ok := out.(InitializeResult)
	vAssert("is-result", ok)
	vAssert("tools-always", res.Capabilities.Tools != nil)
	vAssert("prompts-iff-registered", (res.Capabilities.Prompts != nil) == hasPrompt)
	vAssert("resources-iff-registered", (res.Capabilities.Resources != nil) == hasResource)
	// the server announces list changes for every capability it advertises (it sends those notifications)
	vAssert("tools-list-changed-advertised", res.Capabilities.Tools != nil && res.Capabilities.Tools.ListChanged)
	if hasPrompt {
		vAssert("prompts-list-changed-advertised", res.Capabilities.Prompts != nil && res.Capabilities.Prompts.ListChanged)
	}
	if hasResource {
		vAssert("resources-list-changed-advertised", res.Capabilities.Resources != nil && res.Capabilities.Resources.ListChanged)
	}
	// a later registration shows at the next initialize
	if !hasPrompt {
		h.promptManager.registerPrompt(&Prompt{Name: "late"}, func(ctx context.Context, r *GetPromptRequest) (*GetPromptResult, error) { return nil, nil })
		out2, _ := h.handleRequest(context.Background(), req, nil)
		res2, ok2 := out2.(InitializeResult)
		vAssert("late-prompt-advertised", vAnd(ok2, res2.Capabilities.Prompts != nil))
	}
	vReach("end")
}
