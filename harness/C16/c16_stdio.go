//verif:pkg .
//verif:use fakes_client
//verif:use fakes_mcp
//verif:bound StdioClient state machine over in-memory pipes (the child process is replaced by a scripted peer on the transport's stdin/stdout): one-step induction from the rest states {fresh, initialized, initialized then closed} over every Connector operation x peer behaviour {write fails, JSON-RPC error answer, undecodable result, valid answer} x notification write {ok, fails} x closing the pipes {ok, reports an error}; plus all histories of length <= 2 (quick) / 3 (thorough) from a fresh client
//verif:assume the real child process (os/exec) is outside the claim: the transport's process field is preset so that no process is started
package mcp

import (
	"context"
	"encoding/json"
	"errors"
	"os/exec"
	"time"
)

type c16Peer struct {
	out           *verifStream
	requests      int
	notifications int
	closeFails    bool // closing the pipe reports an error (e.g. "file already closed" after the child exited)
}

func (p *c16Peer) Write(b []byte) (int, error) {
	doc, _ := verifParse(b)
	obj, _ := verifObj(doc)
	id, has := obj["id"]
	if !has {
		p.notifications++
		if vChoice("notify", 2) == 1 {
			return 0, errors.New("pipe broken")
		}
		return len(b), nil
	}
	p.requests++
	method, _ := obj["method"].(string)
	var result string
	switch vChoice("answer", 4) {
	case 0:
		return 0, errors.New("pipe broken")
	case 1:
		line, _ := json.Marshal(map[string]interface{}{"jsonrpc": "2.0", "id": id, "error": map[string]interface{}{"code": -32603, "message": "nope"}})
		p.out.push(append(line, '\n'))
		return len(b), nil
	case 2:
		result = `"garbage"`
	default:
		switch method {
		case MethodInitialize:
			result = `{"protocolVersion":"2025-03-26","serverInfo":{"name":"s","version":"1"},"capabilities":{}}`
		case MethodToolsList:
			result = `{"tools":[]}`
		case MethodToolsCall:
			result = `{"content":[{"type":"text","text":"hi"}]}`
		case MethodPromptsList:
			result = `{"prompts":[]}`
		case MethodPromptsGet:
			result = `{"messages":[]}`
		case MethodResourcesList:
			result = `{"resources":[]}`
		default:
			result = `{"contents":[]}`
		}
	}
	line, _ := json.Marshal(map[string]interface{}{"jsonrpc": "2.0", "id": id, "result": json.RawMessage(result)})
	p.out.push(append(line, '\n'))
	return len(b), nil
}
func (p *c16Peer) Close() error {
	if p.closeFails {
		return errors.New("file already closed")
	}
	return nil
}

func c16NewStdio() (*StdioClient, *c16Peer) {
	c, err := NewStdioClient(StdioTransportConfig{ServerParams: StdioServerParameters{Command: "none"}, Timeout: 300 * time.Millisecond},
		Implementation{Name: "c", Version: "1"})
	if err != nil {
		panic(err)
	}
	p := &c16Peer{out: newVerifStream(), closeFails: vBool("closeFails")}
	t := c.transport
	t.process = &exec.Cmd{}
	t.stdin = p
	t.stdout = p.out
	t.encoder = json.NewEncoder(p)
	go t.readLoop()
	return c, p
}

func c16ConnOp(c Connector, k int) error {
	ctx := context.Background()
	switch k {
	case 1:
		_, err := c.ListTools(ctx, &ListToolsRequest{})
		return err
	case 2:
		_, err := c.CallTool(ctx, &CallToolRequest{Params: CallToolParams{Name: "t"}})
		return err
	case 3:
		_, err := c.ListPrompts(ctx, &ListPromptsRequest{})
		return err
	case 4:
		_, err := c.GetPrompt(ctx, &GetPromptRequest{})
		return err
	case 5:
		_, err := c.ListResources(ctx, &ListResourcesRequest{})
		return err
	case 6:
		_, err := c.ReadResource(ctx, &ReadResourceRequest{})
		return err
	}
	return c.SendRootsListChangedNotification(ctx)
}

func c16StdioConsistent(c *StdioClient) bool {
	return vAnd((c.GetState() == StateInitialized) == c.initialized.Load(), vOr(c.GetState() == StateInitialized, c.GetState() == StateDisconnected))
}

// H_C16_stdio_step: one arbitrary operation from each rest state of a StdioClient.
func H_C16_stdio_step() {
	c, p := c16NewStdio()
	vAssert("fresh-consistent", vAnd(c16StdioConsistent(c), c.GetState() == StateDisconnected))
	pre := vChoice("pre", 3) // 0 fresh, 1 initialized, 2 initialized then closed
	if pre >= 1 {
		_, err := c.Initialize(context.Background(), &InitializeRequest{})
		vAssume(err == nil)
		vAssert("init-ok-state", vAnd(c.initialized.Load(), c.GetState() == StateInitialized))
		vAssert("init-traffic", vAnd(p.requests == 1, p.notifications == 1))
		if pre == 2 {
			c.Close()
			vAssert("closed-state", vAnd(!c.initialized.Load(), c.GetState() == StateDisconnected))
		}
	}
	wasInit := c.initialized.Load()
	r0, n0 := p.requests, p.notifications
	op := vChoice("op", 9) // 0 Initialize, 1..7 operations, 8 Close
	switch {
	case op == 0:
		res, err := c.Initialize(context.Background(), &InitializeRequest{})
		if wasInit {
			vAssert("second-handshake-refused", vAnd(err != nil, res == nil))
			vAssert("second-handshake-no-traffic", vAnd(p.requests == r0, p.notifications == n0))
			vAssert("second-handshake-keeps-state", vAnd(c.initialized.Load(), c.GetState() == StateInitialized))
		} else if err == nil {
			vAssert("handshake-ok", vAnd(c.initialized.Load(), c.GetState() == StateInitialized))
			vAssert("handshake-traffic", vAnd(p.requests == r0+1, p.notifications == n0+1))
		} else {
			vAssert("failed-handshake-uninitialized", vAnd(!c.initialized.Load(), c.GetState() == StateDisconnected))
			vAssert("failed-handshake-no-result", res == nil)
		}
	case op <= 7:
		err := c16ConnOp(c, op)
		if !wasInit {
			vAssert("not-initialized-error", err != nil)
			vAssert("no-traffic-before-handshake", vAnd(p.requests == r0, p.notifications == n0))
		} else {
			vAssert("one-message", p.requests+p.notifications == r0+n0+1)
		}
		vAssert("operation-keeps-flag", c.initialized.Load() == wasInit)
	default:
		c.Close()
		vAssert("close-uninitializes", vAnd(!c.initialized.Load(), c.GetState() == StateDisconnected))
	}
	vAssert("consistent-after", c16StdioConsistent(c))
	c.Close()
	p.out.end()
	vReach("end")
}

// H_C16_stdio_history: every short history from a fresh StdioClient.
func H_C16_stdio_history() {
	c, p := c16NewStdio()
	n := 2
	if vTier() == 1 {
		n = 3
	}
	for i := 0; i < n; i++ {
		wasInit := c.initialized.Load()
		r0, n0 := p.requests, p.notifications
		op := vChoice("op", 4) // 0 Initialize, 1 CallTool, 2 ListResources, 3 Close
		switch op {
		case 0:
			c.Initialize(context.Background(), &InitializeRequest{})
		case 1:
			_, err := c.CallTool(context.Background(), &CallToolRequest{Params: CallToolParams{Name: "t"}})
			if !wasInit {
				vAssert("guarded", vAnd(err != nil, vAnd(p.requests == r0, p.notifications == n0)))
			}
		case 2:
			_, err := c.ListResources(context.Background(), &ListResourcesRequest{})
			if !wasInit {
				vAssert("guarded", vAnd(err != nil, vAnd(p.requests == r0, p.notifications == n0)))
			}
		default:
			c.Close()
		}
		vAssert("consistent", c16StdioConsistent(c))
	}
	c.Close()
	p.out.end()
	vReach("end")
}
