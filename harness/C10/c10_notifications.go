//verif:pkg .
//verif:use fakes_mcp
//verif:use fakes_client
//verif:bound one tools/call over Streamable HTTP with an SSE answer whose handler emits k <= 2 (thorough 3) notifications (method in {n/a, n/b}, symbolic text, optional _meta with a symbolic token); one notification whose _meta is given as map[string]interface{}, as the library's Meta type or as map[string]string, with or without other fields, through SendCustomNotification or SendNotification before returning; every subset of {n/a, n/b} registered on the client; time.Now is an arbitrary non-decreasing clock; also the JSON-answer configuration (notifications dropped, result unaffected); two notifications whose client handlers return errors (every subset): both delivered, result unaffected
//verif:assume wall-clock timing and concurrent calls on one client are outside this kernel
package mcp

import (
	"context"
	"net/http"
	"strings"
)

type c10Rec struct {
	method string
	text   interface{}
	seq    interface{}
	meta   interface{}
	nfields int
}

// c10Bridge keeps the raw body of the last exchange so that the wire's id: lines can be inspected.
type c10Bridge struct {
	inner    *verifBridge
	lastBody []byte
}

func (b *c10Bridge) Handle(ctx context.Context, client *http.Client, req *http.Request) (*http.Response, error) {
	resp, err := b.inner.Handle(ctx, client, req)
	if err == nil {
		b.lastBody = resp.Body.(*verifBody).data
	}
	return resp, err
}

func H_C10_in_call_notifications() {
	vRandConcrete(true)
	sse := vBool("sseAnswers")
	srv := NewServer("srv", "1.0", WithPostSSEEnabled(sse), WithGetSSEEnabled(false))
	bridge := &c10Bridge{inner: &verifBridge{handler: srv.httpHandler}}
	c, err := NewClient("http://h.example/mcp", Implementation{Name: "c", Version: "1"}, WithHTTPReqHandler(bridge), WithClientGetSSEEnabled(false))
	if err != nil {
		panic(err)
	}
	maxK := 2
	if vTier() == 1 {
		maxK = 3
	}
	k := vChoice("k", maxK+1)
	methods := make([]string, k)
	texts := make([]string, k)
	metas := make([]string, k)
	hasMeta := make([]bool, k)
	shapes := make([]int, k)
	metaKinds := make([]int, k)
	metaKind := 0 // the main harness gives _meta as a plain map; H_C10_meta_types varies the Go type
	for i := 0; i < k; i++ {
		methods[i] = []string{"n/a", "n/b"}[vChoice("method", 2)]
		// shape of the params: 0 fields only, 1 fields and _meta, 2 _meta only, 3 empty
		if k == 3 {
			// thorough tier, three notifications: the two shapes that carry fields (all four shapes with
			// three notifications exceed an hour of solver time)
			shapes[i] = vChoice("shape", 2)
		} else {
			shapes[i] = vChoice("shape", 4)
		}
		if shapes[i] <= 1 {
			texts[i] = vString("text", 6)
		}
		hasMeta[i] = shapes[i] == 1 || shapes[i] == 2
		if hasMeta[i] {
			metas[i] = vString("tok", 6)
			metaKinds[i] = metaKind
		}
	}
	sendErrs := 0
	srv.RegisterTool(NewTool("t"), func(ctx context.Context, r *CallToolRequest) (*CallToolResult, error) {
		sender, ok := GetNotificationSender(ctx)
		if !ok {
			return nil, context.Canceled
		}
		for i := 0; i < k; i++ {
			params := map[string]interface{}{}
			if shapes[i] <= 1 {
				params["seq"] = float64(i)
				params["text"] = texts[i]
			}
			if hasMeta[i] {
				// the Go type the caller uses for _meta: a plain map, the library's Meta type, or a map of
				// strings (the last two are not lifted into Params.Meta by the sender and travel inside the
				// additional fields)
				switch metaKinds[i] {
				case 0:
					params["_meta"] = map[string]interface{}{"tok": metas[i]}
				case 1:
					params["_meta"] = Meta{"tok": metas[i]}
				default:
					params["_meta"] = map[string]string{"tok": metas[i]}
				}
			}
			if err := sender.SendCustomNotification(methods[i], params); err != nil {
				sendErrs++
			}
		}
		return NewTextResult("done"), nil
	})
	regA, regB := vBool("registerA"), vBool("registerB")
	var got []c10Rec
	returned := false
	handler := func(n *JSONRPCNotification) error {
		vAssert("notification-before-result", !returned)
		var meta interface{}
		if n.Params.Meta != nil {
			meta = n.Params.Meta["tok"]
		}
		got = append(got, c10Rec{method: n.Method, text: n.Params.AdditionalFields["text"], seq: n.Params.AdditionalFields["seq"], meta: meta, nfields: len(n.Params.AdditionalFields)})
		return nil
	}
	if regA {
		c.RegisterNotificationHandler("n/a", handler)
	}
	if regB {
		c.RegisterNotificationHandler("n/b", handler)
	}
	_, ierr := c.Initialize(context.Background(), &InitializeRequest{})
	vAssume(ierr == nil)
	res, cerr := c.CallTool(context.Background(), &CallToolRequest{Params: CallToolParams{Name: "t"}})
	returned = true
	vAssert("result-arrives", vAnd(cerr == nil, res != nil))
	vAssert("no-send-errors", sendErrs == 0)
	// expected deliveries: emitted sequence restricted to registered methods (SSE answers only)
	var want []int
	if sse {
		for i := 0; i < k; i++ {
			if (methods[i] == "n/a" && regA) || (methods[i] == "n/b" && regB) {
				want = append(want, i)
			}
		}
	}
	vAssert("each-exactly-once-no-extras", len(got) == len(want))
	if len(got) == len(want) {
		for j, i := range want {
			vAssert("method-intact", got[j].method == methods[i])
			if shapes[i] <= 1 {
				vAssert("in-emission-order", got[j].seq == float64(i))
				vAssert("params-intact", vAnd(got[j].text == texts[i], got[j].nfields == 2))
			} else {
				vAssert("no-params-invented", got[j].nfields == 0)
			}
			if hasMeta[i] {
				vAssert("meta-intact", got[j].meta == metas[i])
			} else {
				vAssert("no-meta-invented", got[j].meta == nil)
			}
		}
	}
	if sse {
		// event ids on the stream are pairwise distinct
		var ids []string
		for _, line := range strings.Split(string(bridge.lastBody), "\n") {
			if strings.HasPrefix(line, "id: ") {
				ids = append(ids, strings.TrimPrefix(line, "id: "))
			}
		}
		vAssert("one-id-per-event", len(ids) == k+1)
		for i := 0; i < len(ids); i++ {
			for j := i + 1; j < len(ids); j++ {
				vAssert("event-ids-distinct", ids[i] != ids[j])
			}
		}
	}
	vReach("end")
}

// H_C10_meta_types: one notification whose _meta is given as a plain map, as the library's Meta type or as a
// map of strings, with or without further fields, through SendCustomNotification and through SendNotification
// with hand-built params: the client handler sees the token either way.
func H_C10_meta_types() {
	vRandConcrete(true)
	srv := NewServer("srv", "1.0", WithPostSSEEnabled(true), WithGetSSEEnabled(false))
	bridge := &c10Bridge{inner: &verifBridge{handler: srv.httpHandler}}
	c, err := NewClient("http://h.example/mcp", Implementation{Name: "c", Version: "1"}, WithHTTPReqHandler(bridge), WithClientGetSSEEnabled(false))
	if err != nil {
		panic(err)
	}
	kind := vChoice("metaType", 3)
	withFields := vBool("withFields")
	via := vChoice("via", 2)
	tok := vString("tok", 6)
	sendErr := error(nil)
	srv.RegisterTool(NewTool("t"), func(ctx context.Context, r *CallToolRequest) (*CallToolResult, error) {
		sender, ok := GetNotificationSender(ctx)
		if !ok {
			return nil, context.Canceled
		}
		params := map[string]interface{}{}
		if withFields {
			params["text"] = "x"
		}
		switch kind {
		case 0:
			params["_meta"] = map[string]interface{}{"tok": tok}
		case 1:
			params["_meta"] = Meta{"tok": tok}
		default:
			params["_meta"] = map[string]string{"tok": tok}
		}
		if via == 0 {
			sendErr = sender.SendCustomNotification("n/a", params)
		} else {
			sendErr = sender.SendNotification(&Notification{Method: "n/a", Params: NotificationParams{AdditionalFields: params}})
		}
		return NewTextResult("done"), nil
	})
	var metas []interface{}
	var nfields []int
	c.RegisterNotificationHandler("n/a", func(n *JSONRPCNotification) error {
		var meta interface{}
		if n.Params.Meta != nil {
			meta = n.Params.Meta["tok"]
		}
		metas = append(metas, meta)
		nfields = append(nfields, len(n.Params.AdditionalFields))
		return nil
	})
	_, ierr := c.Initialize(context.Background(), &InitializeRequest{})
	vAssume(ierr == nil)
	res, cerr := c.CallTool(context.Background(), &CallToolRequest{Params: CallToolParams{Name: "t"}})
	vAssert("result-arrives", vAnd(cerr == nil, res != nil))
	vAssert("send-ok", sendErr == nil)
	vAssert("delivered-once", len(metas) == 1)
	if len(metas) == 1 {
		vAssert("meta-intact", metas[0] == tok)
		if withFields {
			vAssert("fields-intact", nfields[0] == 1)
		} else {
			vAssert("no-fields-invented", nfields[0] == 0)
		}
	}
	vReach("end")
}

// H_C10_helpers: the convenience helpers SendLogMessage and SendProgress with a symbolic level / message /
// progress value: the client handler sees them unchanged, once, before the result.
func H_C10_helpers() {
	vRandConcrete(true)
	srv := NewServer("srv", "1.0", WithPostSSEEnabled(true), WithGetSSEEnabled(false))
	bridge := &c10Bridge{inner: &verifBridge{handler: srv.httpHandler}}
	c, err := NewClient("http://h.example/mcp", Implementation{Name: "c", Version: "1"}, WithHTTPReqHandler(bridge), WithClientGetSSEEnabled(false))
	if err != nil {
		panic(err)
	}
	helper := vChoice("helper", 2)
	level := vString("level", 9)
	message := vString("message", 6)
	progress := float64(vIntRange("progressPercent", 0, 100)) / 4
	var sendErr error
	srv.RegisterTool(NewTool("t"), func(ctx context.Context, r *CallToolRequest) (*CallToolResult, error) {
		sender, ok := GetNotificationSender(ctx)
		if !ok {
			return nil, context.Canceled
		}
		if helper == 0 {
			sendErr = sender.SendLogMessage(level, message)
		} else {
			sendErr = sender.SendProgress(progress, message)
		}
		return NewTextResult("done"), nil
	})
	returned := false
	var seen []*JSONRPCNotification
	h := func(n *JSONRPCNotification) error {
		vAssert("notification-before-result", !returned)
		seen = append(seen, n)
		return nil
	}
	c.RegisterNotificationHandler("notifications/message", h)
	c.RegisterNotificationHandler("notifications/progress", h)
	_, ierr := c.Initialize(context.Background(), &InitializeRequest{})
	vAssume(ierr == nil)
	res, cerr := c.CallTool(context.Background(), &CallToolRequest{Params: CallToolParams{Name: "t"}})
	returned = true
	vAssert("result-arrives", vAnd(cerr == nil, res != nil))
	vAssert("send-ok", sendErr == nil)
	vAssert("delivered-once", len(seen) == 1)
	if len(seen) == 1 {
		f := seen[0].Params.AdditionalFields
		data, _ := f["data"].(map[string]interface{})
		if helper == 0 {
			vAssert("log-method", seen[0].Method == "notifications/message")
			vAssert("log-level-intact", f["level"] == level)
			vAssert("log-message-intact", data["message"] == message)
		} else {
			vAssert("progress-method", seen[0].Method == "notifications/progress")
			vAssert("progress-value-intact", vAnd(f["progress"] == progress, data["progress"] == progress))
			vAssert("progress-message-intact", vAnd(f["message"] == message, data["message"] == message))
		}
	}
	vReach("end")
}

// H_C10_handler_errors: the client's notification handlers may fail (every subset of two notifications' handlers
// returns an error): each notification is still delivered once, in order, and the result still arrives.
func H_C10_handler_errors() {
	vRandConcrete(true)
	srv := NewServer("srv", "1.0", WithPostSSEEnabled(true), WithGetSSEEnabled(false))
	bridge := &c10Bridge{inner: &verifBridge{handler: srv.httpHandler}}
	c, err := NewClient("http://h.example/mcp", Implementation{Name: "c", Version: "1"}, WithHTTPReqHandler(bridge), WithClientGetSSEEnabled(false))
	if err != nil {
		panic(err)
	}
	failMask := vChoice("failingHandlers", 4)
	srv.RegisterTool(NewTool("t"), func(ctx context.Context, r *CallToolRequest) (*CallToolResult, error) {
		sender, ok := GetNotificationSender(ctx)
		if !ok {
			return nil, context.Canceled
		}
		sender.SendCustomNotification("n/a", map[string]interface{}{"seq": float64(0)})
		sender.SendCustomNotification("n/b", map[string]interface{}{"seq": float64(1)})
		return NewTextResult("done"), nil
	})
	var seen []string
	c.RegisterNotificationHandler("n/a", func(n *JSONRPCNotification) error {
		seen = append(seen, n.Method)
		if failMask&1 != 0 {
			return context.Canceled
		}
		return nil
	})
	c.RegisterNotificationHandler("n/b", func(n *JSONRPCNotification) error {
		seen = append(seen, n.Method)
		if failMask&2 != 0 {
			return context.Canceled
		}
		return nil
	})
	_, ierr := c.Initialize(context.Background(), &InitializeRequest{})
	vAssume(ierr == nil)
	res, cerr := c.CallTool(context.Background(), &CallToolRequest{Params: CallToolParams{Name: "t"}})
	vAssert("result-arrives-whatever-the-handlers-return", vAnd(cerr == nil, res != nil))
	vAssert("both-delivered-in-order", vAnd(len(seen) == 2, len(seen) == 2 && seen[0] == "n/a" && seen[1] == "n/b"))
	vReach("end")
}
