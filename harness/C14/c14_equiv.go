//verif:pkg .
//verif:use servers_mcp
//verif:bound one request (string or integer id, each of the eight commonly served methods or an arbitrary other method name, params lazy depth 2, handler outcomes symbolic but identical across servers) run through the stdio dispatcher, the Streamable server (stateless JSON, stateless SSE, sessions disabled) and the legacy SSE server; normalised answers compared pairwise
//verif:assume un-encodable handler results are excluded here (they are C03's finding); error message wording is not compared (the property excludes it)
package mcp

import (
	"context"
	"strings"
	"time"
)

type c14Env struct {
	toolOut, prOut, resOut int
}

func (e *c14Env) tool(ctx context.Context, r *CallToolRequest) (*CallToolResult, error) {
	if e.toolOut < 0 {
		e.toolOut = vChoice("toolOutcome", 3)
	}
	switch e.toolOut {
	case 0:
		return NewTextResult("hello"), nil
	case 1:
		return nil, errVerifHandler
	}
	return NewErrorResult("tool says no"), nil
}
func (e *c14Env) prompt(ctx context.Context, r *GetPromptRequest) (*GetPromptResult, error) {
	if e.prOut < 0 {
		e.prOut = vChoice("promptOutcome", 2)
	}
	if e.prOut == 1 {
		return nil, errVerifHandler
	}
	return &GetPromptResult{Description: "d", Messages: []PromptMessage{{Role: RoleUser, Content: NewTextContent("hi")}}}, nil
}
func (e *c14Env) resource(ctx context.Context, r *ReadResourceRequest) (ResourceContents, error) {
	if e.resOut < 0 {
		e.resOut = vChoice("resourceOutcome", 2)
	}
	if e.resOut == 1 {
		return nil, errVerifHandler
	}
	return TextResourceContents{URI: "file:///r", Text: "body"}, nil
}

type c14Answer struct {
	ok        bool // a JSON-RPC frame was produced
	hasResult bool
	result    interface{}
	code      float64
}

func c14Normalise(frame interface{}, ok bool) c14Answer {
	a := c14Answer{ok: ok}
	if !ok {
		return a
	}
	m, isObj := verifObj(frame)
	if !isObj {
		a.ok = false
		return a
	}
	a.result, a.hasResult = m["result"]
	if eo, ok := verifObj(m["error"]); ok {
		a.code, _ = eo["code"].(float64)
	}
	return a
}

func c14Streamable(e *c14Env, mode int, body []byte) c14Answer {
	vRandConcrete(true)
	var opts []ServerOption
	accept := "application/json"
	switch mode {
	case 0:
		opts = append(opts, WithStatelessMode(true), WithPostSSEEnabled(false))
	case 1:
		opts = append(opts, WithStatelessMode(true))
		accept = "application/json, text/event-stream"
	default:
		opts = append(opts, WithoutSession(), WithPostSSEEnabled(false))
	}
	srv := NewServer("srv", "1.0", opts...)
	srv.RegisterTool(NewTool("t"), e.tool)
	srv.RegisterPrompt(&Prompt{Name: "p"}, e.prompt)
	srv.RegisterResource(&Resource{URI: "file:///r", Name: "r"}, e.resource)
	rec := newVerifRecorder()
	srv.httpHandler.ServeHTTP(rec, verifRequest("POST", "/mcp", body, "Accept", accept))
	if rec.code() != 200 {
		return c14Answer{}
	}
	return c14Normalise(c03Frame(rec, mode == 1))
}

func c14Stdio(e *c14Env, body []byte) c14Answer {
	srv := NewStdioServer("srv", "1.0")
	srv.RegisterTool(NewTool("t"), e.tool)
	srv.RegisterPrompt(&Prompt{Name: "p"}, e.prompt)
	srv.RegisterResource(&Resource{URI: "file:///r", Name: "r"}, e.resource)
	tr := newStdioTransport(srv.internal)
	w := &verifWriter{}
	tr.processMessage(context.Background(), string(body)+"\n", w)
	if len(w.data) == 0 {
		return c14Answer{}
	}
	return c14Normalise(verifParse([]byte(strings.TrimSuffix(string(w.data), "\n"))))
}

func c14SSE(e *c14Env, body []byte) c14Answer {
	srv := NewSSEServer("srv", "1.0")
	srv.RegisterTool(NewTool("t"), e.tool)
	srv.RegisterPrompt(&Prompt{Name: "p"}, e.prompt)
	srv.RegisterResource(&Resource{URI: "file:///r", Name: "r"}, e.resource)
	session := &sseSession{done: make(chan struct{}), eventQueue: make(chan string, 100), sessionID: "s1",
		notificationChannel: make(chan *JSONRPCNotification, 100), data: make(map[string]interface{})}
	srv.sessions.Store("s1", session)
	rec := newVerifRecorder()
	req := verifRequest("POST", "/message", body)
	req.URL.RawQuery = "sessionId=s1"
	srv.ServeHTTP(rec, req)
	if rec.code() != 202 {
		return c14Answer{}
	}
	select {
	case ev := <-session.eventQueue:
		payload := strings.TrimSuffix(strings.TrimPrefix(ev, "event: message\ndata: "), "\n\n")
		return c14Normalise(verifParse([]byte(payload)))
	case <-time.After(300 * time.Millisecond):
	}
	return c14Answer{}
}

func c14Same(a, b c14Answer) bool {
	if a.ok != b.ok || a.hasResult != b.hasResult {
		return false
	}
	if !a.ok {
		return true
	}
	if a.hasResult {
		return verifDeepEqual(a.result, b.result)
	}
	return a.code == b.code
}

func H_C14_servers() {
	e := &c14Env{toolOut: -1, prOut: -1, resOut: -1}
	body := c03BuildRequest(c03StdioMethods)
	ref := c14Streamable(e, 0, body)
	vAssert("reference-answers", ref.ok)
	vAssert("streamable-sse-same", c14Same(ref, c14Streamable(e, 1, body)))
	vAssert("streamable-sessions-off-same", c14Same(ref, c14Streamable(e, 2, body)))
	vAssert("legacy-sse-same", c14Same(ref, c14SSE(e, body)))
	vAssert("stdio-same", c14Same(ref, c14Stdio(e, body)))
	vReach("end")
}
