//verif:pkg .
//verif:use fakes_client
//verif:bound client side: one server answer - either a result that is an arbitrary (lazy symbolic) JSON document of depth <= 3 for tools/call and prompts/get, <= 2 for the others, or an error object with symbolic code and message - delivered for the same operation (tools/list, tools/call, prompts/list, prompts/get, resources/list, resources/read) to the Streamable client (JSON answer and SSE answer), the legacy SSE client and the StdioClient (over in-memory pipes); outcomes compared pairwise: all fail or all succeed with equal values
//verif:assume error message wording is not compared (the property excludes it); the answers are well-formed JSON-RPC envelopes echoing the request id (malformed envelopes are C07's subject)
package mcp

import (
	"context"
	"encoding/json"
	"net/http"
	"os/exec"
	"time"
)

type c14cScript struct {
	isError bool
	result  []byte
	code    int64
	message string
}

func (s *c14cScript) answer(id interface{}) []byte {
	var b []byte
	if s.isError {
		b, _ = json.Marshal(map[string]interface{}{"jsonrpc": "2.0", "id": id, "error": map[string]interface{}{"code": s.code, "message": s.message}})
	} else {
		b, _ = json.Marshal(map[string]interface{}{"jsonrpc": "2.0", "id": id, "result": json.RawMessage(s.result)})
	}
	return b
}

func c14cReqID(body []byte) (interface{}, bool) {
	doc, _ := verifParse(body)
	obj, _ := verifObj(doc)
	id, has := obj["id"]
	return id, has
}

func c14cStreamable(s *c14cScript, sse bool) Connector {
	net := &verifNet{}
	net.respond = func(r *verifSent) (*http.Response, error) {
		id, has := c14cReqID(r.body)
		if !has {
			return verifResp(202, nil), nil
		}
		if sse {
			return verifResp(200, []byte("data: "+string(s.answer(id))+"\n\n"), "Content-Type", "text/event-stream"), nil
		}
		return verifResp(200, s.answer(id), "Content-Type", "application/json"), nil
	}
	c, err := NewClient("http://h.example/mcp", Implementation{Name: "c", Version: "1"}, WithHTTPReqHandler(&verifReqHandler{net: net}), WithClientGetSSEEnabled(false))
	if err != nil {
		panic(err)
	}
	c.initialized = true
	return c
}

func c14cLegacy(s *c14cScript) Connector {
	stream := newVerifStream()
	net := &verifNet{}
	net.respond = func(r *verifSent) (*http.Response, error) {
		if r.method == "GET" {
			stream.push([]byte("event: endpoint\ndata: /message?sessionId=abc\n\n"))
			return &http.Response{StatusCode: 200, Status: "200 OK", Header: http.Header{"Content-Type": []string{"text/event-stream"}}, Body: stream}, nil
		}
		if id, has := c14cReqID(r.body); has {
			stream.push([]byte("event: message\ndata: " + string(s.answer(id)) + "\n\n"))
		}
		return verifResp(202, nil), nil
	}
	c, err := NewSSEClient("http://h.example/sse", Implementation{Name: "c", Version: "1"}, WithHTTPReqHandler(&verifReqHandler{net: net}))
	if err != nil {
		panic(err)
	}
	c.initialized = true
	return c
}

type c14cPipe struct {
	out *verifStream
	s   *c14cScript
}

func (p *c14cPipe) Write(b []byte) (int, error) {
	if id, has := c14cReqID(b); has {
		p.out.push(append(p.s.answer(id), '\n'))
	}
	return len(b), nil
}
func (p *c14cPipe) Close() error { return nil }

func c14cStdio(s *c14cScript) Connector {
	c, err := NewStdioClient(StdioTransportConfig{ServerParams: StdioServerParameters{Command: "none"}, Timeout: 300 * time.Millisecond},
		Implementation{Name: "c", Version: "1"})
	if err != nil {
		panic(err)
	}
	p := &c14cPipe{out: newVerifStream(), s: s}
	t := c.transport
	t.process = &exec.Cmd{}
	t.stdin = p
	t.stdout = p.out
	t.encoder = json.NewEncoder(p)
	go t.readLoop()
	c.initialized.Store(true)
	return c
}

// c14cDo runs operation op and returns (value, error).
func c14cDo(c Connector, op int) (interface{}, error) {
	ctx, cancel := context.WithTimeout(context.Background(), 400*time.Millisecond)
	defer cancel()
	switch op {
	case 0:
		r, err := c.ListTools(ctx, &ListToolsRequest{})
		if r == nil {
			return nil, err
		}
		return r, err
	case 1:
		r, err := c.CallTool(ctx, &CallToolRequest{Params: CallToolParams{Name: "t"}})
		if r == nil {
			return nil, err
		}
		return r, err
	case 2:
		r, err := c.ListPrompts(ctx, &ListPromptsRequest{})
		if r == nil {
			return nil, err
		}
		return r, err
	case 3:
		gp := &GetPromptRequest{}
		gp.Params.Name = "p"
		r, err := c.GetPrompt(ctx, gp)
		if r == nil {
			return nil, err
		}
		return r, err
	case 4:
		r, err := c.ListResources(ctx, &ListResourcesRequest{})
		if r == nil {
			return nil, err
		}
		return r, err
	}
	rr := &ReadResourceRequest{}
	rr.Params.URI = "file:///r"
	r, err := c.ReadResource(ctx, rr)
	if r == nil {
		return nil, err
	}
	return r, err
}

// H_C14_clients: equal server answers give equal client-visible outcomes on every client kind.
func H_C14_clients() {
	s := &c14cScript{}
	if vChoice("answerKind", 2) == 1 {
		s.isError = true
		s.code = vInt64Range("code", -32768, 32767)
		s.message = vString("message", 6)
	}
	op := vChoice("op", 6)
	if !s.isError {
		// depth 3 reaches the content items of a tool result and the messages of a prompt; the list
		// results and resource contents are explored to depth 2
		depth := 2
		if op == 1 || op == 3 {
			depth = 3
		}
		s.result = vJSON("result", depth)
	}
	clients := []Connector{c14cStreamable(s, false), c14cStreamable(s, true), c14cLegacy(s), c14cStdio(s)}
	names := []string{"streamable-json", "streamable-sse", "legacy-sse", "stdio"}
	var vals []interface{}
	var errs []error
	for _, c := range clients {
		v, err := c14cDo(c, op)
		vals = append(vals, v)
		errs = append(errs, err)
	}
	for i := 1; i < len(clients); i++ {
		vAssert("same-success-or-failure:"+names[0]+"/"+names[i], (errs[0] == nil) == (errs[i] == nil))
		if errs[0] == nil && errs[i] == nil {
			vAssert("same-value:"+names[0]+"/"+names[i], vSameJSON(vals[0], vals[i]))
		}
	}
	for _, c := range clients {
		c.Close()
	}
	vReach("end")
}
