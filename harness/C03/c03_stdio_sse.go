//verif:pkg .
//verif:bound stdio server: one input line (lazy JSON, same two document families as the Streamable harnesses) through stdioTransport.processMessage with a recording writer; legacy SSE server: one POST to the message endpoint of a live session whose event queue is read back by the harness
package mcp

import (
	"context"
	"encoding/json"
	"strings"
	"time"
)

type verifWriter struct {
	data   []byte
	writes int
}

func (w *verifWriter) Write(p []byte) (int, error) {
	w.data = append(w.data, p...)
	w.writes++
	return len(p), nil
}

func c03RegisterStdio(e *c03Env, srv *StdioServer) {
	e.toolOut, e.prOut, e.resOut = -1, -1, -1
	srv.RegisterTool(NewTool("t"), func(ctx context.Context, r *CallToolRequest) (*CallToolResult, error) {
		e.toolOut = vChoice("toolOutcome", 4)
		return verifToolHandler(e.toolLog, e.toolOut, "hello")(ctx, r)
	})
	srv.RegisterPrompt(&Prompt{Name: "p"}, func(ctx context.Context, r *GetPromptRequest) (*GetPromptResult, error) {
		e.prOut = vChoice("promptOutcome", 2)
		if e.prOut == 1 {
			return nil, errVerifHandler
		}
		return &GetPromptResult{Messages: []PromptMessage{{Role: RoleUser, Content: NewTextContent("hi")}}}, nil
	})
	srv.RegisterResource(&Resource{URI: "file:///r", Name: "r"}, func(ctx context.Context, r *ReadResourceRequest) (ResourceContents, error) {
		e.resOut = vChoice("resourceOutcome", 2)
		if e.resOut == 1 {
			return nil, errVerifHandler
		}
		return TextResourceContents{URI: "file:///r", Text: "body"}, nil
	})
}

var c03StdioMethods = []string{"initialize", "ping", "tools/list", "tools/call", "resources/list", "resources/read", "prompts/list", "prompts/get"}

func c03BuildRequest(methods []string) []byte {
	var id interface{}
	if vChoice("idKind", 2) == 0 {
		id = vString("id", 8)
	} else {
		id = vInt64Range("idn", 0, 1<<53)
	}
	var method string
	k := vChoice("method", len(methods)+1)
	if k < len(methods) {
		method = methods[k]
	} else {
		method = vString("method", 12)
		vAssume(method != "")
	}
	doc := map[string]interface{}{"jsonrpc": "2.0", "id": id, "method": method}
	if vChoice("hasParams", 2) == 0 {
		doc["params"] = json.RawMessage(vJSON("params", 2))
	}
	body, err := json.Marshal(doc)
	if err != nil {
		panic(err)
	}
	return body
}

// c03StdioKnown: the methods the stdio server serves.
func c03StdioKnown(m string) bool {
	for _, k := range c03StdioMethods {
		if m == k {
			return true
		}
	}
	return false
}

func c03StdioExchange(line []byte) {
	e := &c03Env{toolLog: &verifToolLog{}, mode: 10}
	srv := NewStdioServer("srv", "1.0")
	c03RegisterStdio(e, srv)
	tr := newStdioTransport(srv.internal)
	w := &verifWriter{}
	err := tr.processMessage(context.Background(), string(line)+"\n", w)
	_ = err

	doc, parsed := verifParse(line)
	obj, isObj := verifObj(doc)
	if !parsed || !isObj {
		vAssert("non-object-answered-or-silent", true)
		vReach("non-object")
		return
	}
	if jv, hasJ := obj["jsonrpc"]; !hasJ || jv == nil || !verifIsString(jv) {
		vReach("bad-jsonrpc")
		return
	}
	if mv, hasM := obj["method"]; hasM && mv != nil && !verifIsString(mv) {
		vReach("bad-method")
		return
	}
	method, _ := obj["method"].(string)
	id, hasID := obj["id"]
	isNum := func() bool { _, ok := id.(float64); return ok }()
	if method == "" || !hasID || id == nil || !(verifIsString(id) || isNum) {
		vReach("not-a-request")
		return
	}
	if ver, _ := obj["jsonrpc"].(string); ver != "2.0" {
		vReach("other-version")
		return
	}
	// a well-formed request: exactly one line, payload then newline
	vAssert("stdio-answered", len(w.data) > 0)
	if len(w.data) == 0 {
		vReach("stdio-silent")
		return
	}
	text := string(w.data)
	vAssert("stdio-one-line", vAnd(strings.HasSuffix(text, "\n"), strings.Count(text, "\n") == 1))
	frame, ok := verifParse([]byte(strings.TrimSuffix(text, "\n")))
	vAssert("stdio-frame-is-json", ok)
	if !ok {
		return
	}
	if !c03StdioKnown(method) {
		_, _, errObj, hasErr := verifResponse(frame, id)
		vAssert("stdio-unknown-method-32601", vAnd(hasErr, verifErrCode(errObj) == -32601))
		vReach("stdio-unknown-method")
		return
	}
	c03CheckFrame(e, frame, obj, method, id)
}

func H_C03_stdio_methods() {
	c03StdioExchange(c03BuildRequest(c03StdioMethods))
}

func H_C03_stdio_envelope() {
	c03StdioExchange(vJSON("req", 1))
}

// ---- legacy SSE server ----

func c03SSEExchange(body []byte) {
	e := &c03Env{toolLog: &verifToolLog{}, mode: 20}
	srv := NewSSEServer("srv", "1.0")
	e.toolOut, e.prOut, e.resOut = -1, -1, -1
	srv.RegisterTool(NewTool("t"), func(ctx context.Context, r *CallToolRequest) (*CallToolResult, error) {
		e.toolOut = vChoice("toolOutcome", 4)
		return verifToolHandler(e.toolLog, e.toolOut, "hello")(ctx, r)
	})
	srv.RegisterPrompt(&Prompt{Name: "p"}, func(ctx context.Context, r *GetPromptRequest) (*GetPromptResult, error) {
		e.prOut = vChoice("promptOutcome", 2)
		if e.prOut == 1 {
			return nil, errVerifHandler
		}
		return &GetPromptResult{Messages: []PromptMessage{{Role: RoleUser, Content: NewTextContent("hi")}}}, nil
	})
	srv.RegisterResource(&Resource{URI: "file:///r", Name: "r"}, func(ctx context.Context, r *ReadResourceRequest) (ResourceContents, error) {
		e.resOut = vChoice("resourceOutcome", 2)
		if e.resOut == 1 {
			return nil, errVerifHandler
		}
		return TextResourceContents{URI: "file:///r", Text: "body"}, nil
	})
	session := &sseSession{
		done:                make(chan struct{}),
		eventQueue:          make(chan string, 100),
		sessionID:           "s1",
		notificationChannel: make(chan *JSONRPCNotification, 100),
		createdAt:           time.Now(),
		lastActivity:        time.Now(),
		data:                make(map[string]interface{}),
	}
	srv.sessions.Store("s1", session)
	rec := newVerifRecorder()
	req := verifRequest("POST", "/message", body)
	req.URL.RawQuery = "sessionId=s1"
	srv.ServeHTTP(rec, req)
	status := rec.code()
	is2xx := status >= 200 && status < 300
	doc, _ := verifParse(body)
	obj, isObj := verifObj(doc)
	if !isObj {
		vAssert("sse-non-object-refused", vOr(!is2xx, len(rec.body) > 0))
		vReach("non-object")
		return
	}
	if jv, hasJ := obj["jsonrpc"]; hasJ && jv != nil && !verifIsString(jv) {
		vAssert("sse-bad-jsonrpc-not-silent-success", vOr(!is2xx, len(rec.body) > 0))
		vReach("bad-jsonrpc")
		return
	}
	if mv, hasM := obj["method"]; hasM && mv != nil && !verifIsString(mv) {
		vAssert("sse-bad-method-not-silent-success", vOr(!is2xx, len(rec.body) > 0))
		vReach("bad-method")
		return
	}
	method, _ := obj["method"].(string)
	id, hasID := obj["id"]
	isNum := func() bool { _, ok := id.(float64); return ok }()
	if method == "" || !hasID || id == nil || !(verifIsString(id) || isNum) {
		vReach("not-a-request")
		return
	}
	vAssert("sse-request-accepted-202", status == 202)
	// the answer is queued on the session stream
	var event string
	gotEvent := false
	select {
	case event = <-session.eventQueue:
		gotEvent = true
	case <-time.After(300 * time.Millisecond):
	}
	vAssert("sse-request-answered-on-stream", gotEvent)
	if !gotEvent {
		vReach("sse-silent")
		return
	}
	// event: message\ndata: <json>\n\n
	vAssert("sse-event-framing", vAnd(strings.HasPrefix(event, "event: message\ndata: "), strings.HasSuffix(event, "\n\n")))
	payload := strings.TrimSuffix(strings.TrimPrefix(event, "event: message\ndata: "), "\n\n")
	frame, ok := verifParse([]byte(payload))
	vAssert("sse-frame-is-json", ok)
	if !ok {
		return
	}
	c03CheckFrame(e, frame, obj, method, id)
}

func H_C03_sse_methods() {
	c03SSEExchange(c03BuildRequest(verifDispatchSet))
}

func H_C03_sse_envelope() {
	c03SSEExchange(vJSON("req", 1))
}

// H_C03_unparsable: input that is not JSON is reported (-32700 or an HTTP 4xx), on every server kind.
func H_C03_unparsable() {
	switch vChoice("server", 2) {
	case 0:
		srv := NewStdioServer("srv", "1.0")
		tr := newStdioTransport(srv.internal)
		w := &verifWriter{}
		tr.processMessage(context.Background(), string(vJSONInvalid())+"\n", w)
		vAssert("stdio-unparsable-reported", len(w.data) > 0)
	default:
		srv := NewSSEServer("srv", "1.0")
		session := &sseSession{done: make(chan struct{}), eventQueue: make(chan string, 100), sessionID: "s1",
			notificationChannel: make(chan *JSONRPCNotification, 100), data: make(map[string]interface{})}
		srv.sessions.Store("s1", session)
		rec := newVerifRecorder()
		req := verifRequest("POST", "/message", vJSONInvalid())
		req.URL.RawQuery = "sessionId=s1"
		srv.ServeHTTP(rec, req)
		if rec.code() >= 200 && rec.code() < 300 {
			frame, ok := verifParse(rec.body)
			vAssert("sse-unparsable-error-frame", ok)
			m, _ := verifObj(frame)
			eo, _ := verifObj(m["error"])
			vAssert("sse-unparsable-32700", verifErrCode(eo) == -32700)
		}
	}
	vReach("end")
}
