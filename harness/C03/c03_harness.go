//verif:pkg .
//verif:use servers_mcp
//verif:bound one input with a lazy symbolic JSON document (envelope family: depth 1, every JSON kind in every field; method family: string or integer id <= 2^53, every served method or an arbitrary other name, params of depth 2; strings printable ASCII <= 12) on the Streamable server {stateless JSON, stateless SSE; thorough: + sessions disabled, stateful}, the legacy SSE message endpoint and the stdio line handler; tool/prompt/resource handler outcomes symbolic
package mcp

import (
	"context"
	"encoding/json"
)

func H_C03_streamable_envelope() {
	nm := 1
	if vTier() == 1 {
		nm = 4
	}
	mode := vChoice("mode", nm)
	e := c03Setup(mode)
	body := vJSON("req", 1)
	c03Exchange(e, body)
}

func H_C03_streamable_methods() {
	mode := vChoice("mode", c03Modes())
	e := c03Setup(mode)
	var id interface{}
	if vChoice("idKind", 2) == 0 {
		id = vString("id", 8)
	} else {
		id = vInt64Range("idn", 0, 1<<53)
	}
	var method string
	k := vChoice("method", len(verifDispatchSet)+1)
	if k < len(verifDispatchSet) {
		method = verifDispatchSet[k]
	} else {
		method = vString("method", 12)
		vAssume(method != "")
	}
	doc := map[string]interface{}{"jsonrpc": "2.0", "id": id, "method": method}
	if vChoice("hasParams", 2) == 0 {
		doc["params"] = json.RawMessage(vJSON("params", 2))
	}
	body, err := json.Marshal(doc)
	if err != nil {
		panic(err)
	}
	c03Exchange(e, body)
}

func H_C03_streamable_refusals() {
	mode := vChoice("mode", 3)
	e := c03Setup(mode)
	rec := newVerifRecorder()
	body := []byte(`{"jsonrpc":"2.0","id":1,"method":"ping"}`)
	switch vChoice("what", 4) {
	case 0:
		e.srv.httpHandler.ServeHTTP(rec, verifRequest("POST", "/other", body, "Accept", e.accept))
		vAssert("wrong-path-not-2xx", rec.code() >= 300)
	case 1:
		e.srv.httpHandler.ServeHTTP(rec, verifRequest("PUT", "/mcp", body, "Accept", e.accept))
		vAssert("wrong-verb-405", rec.code() == 405)
	case 2:
		e.srv.httpHandler.ServeHTTP(rec, verifRequest("POST", "/mcp", vJSONInvalid(), "Accept", e.accept))
		vAssert("unparsable-4xx", vAnd(rec.code() >= 400, rec.code() < 500))
	default:
		e.srv.httpHandler.ServeHTTP(rec, verifRequest("POST", "/mcp", []byte(`[1,2]`), "Accept", e.accept))
		vAssert("array-body-4xx", vAnd(rec.code() >= 400, rec.code() < 500))
	}
	vReach("end")
}

func H_C03_stdio_methods() {
	c03StdioExchange(c03BuildRequest(c03StdioMethods))
}

func H_C03_stdio_envelope() {
	c03StdioExchange(vJSON("req", 1))
}

// ---- legacy SSE server ----

func H_C03_sse_methods() {
	c03SSEExchange(c03BuildRequest(verifDispatchSet))
}

func H_C03_sse_envelope() {
	c03SSEExchange(vJSON("req", 1))
}

func H_C03_unparsable() {
	switch vChoice("server", 2) {
	case 0:
		srv := NewStdioServer("srv", "1.0")
		tr := newStdioTransport(srv.internal)
		w := &verifWriter{}
		tr.processMessage(context.Background(), string(vJSONInvalid())+"\n", w)
		vAssert("stdio-unparsable-reported", len(w.data) > 0)
	default:
		srv := NewSSEServer("srv", "1.0")
		session := &sseSession{done: make(chan struct{}), eventQueue: make(chan string, 100), sessionID: "s1",
			notificationChannel: make(chan *JSONRPCNotification, 100), data: make(map[string]interface{})}
		srv.sessions.Store("s1", session)
		rec := newVerifRecorder()
		req := verifRequest("POST", "/message", vJSONInvalid())
		req.URL.RawQuery = "sessionId=s1"
		srv.ServeHTTP(rec, req)
		if rec.code() >= 200 && rec.code() < 300 {
			frame, ok := verifParse(rec.body)
			vAssert("sse-unparsable-error-frame", ok)
			m, _ := verifObj(frame)
			eo, _ := verifObj(m["error"])
			vAssert("sse-unparsable-32700", verifErrCode(eo) == -32700)
		}
	}
	vReach("end")
}

