//verif:pkg .
//verif:use fakes_mcp
//verif:use oracle_mcp
//verif:bound one arbitrary exchange (verb x path x session header x lazy JSON body of depth 2 or non-JSON) followed by a well-formed ping on the same server, for the Streamable server in four modes, the legacy SSE message endpoint and the stdio line handler; an uncaught panic in any goroutine, a deadlock, or an unanswered follow-up ping is a violation
//verif:assume goroutine leaks and liveness of a real process, bytes below the JSON tokenizer and header parsing by net/http are outside the claim
package mcp

import (
	"context"
	"encoding/json"
	"strings"
	"time"
)

func c06Server(mode int) (*Server, string, string) {
	vRandConcrete(true)
	var opts []ServerOption
	accept := "application/json"
	switch mode {
	case 0:
		opts = append(opts, WithStatelessMode(true), WithPostSSEEnabled(false))
	case 1:
		opts = append(opts, WithStatelessMode(true))
		accept = "application/json, text/event-stream"
	case 2:
		opts = append(opts, WithoutSession(), WithPostSSEEnabled(false))
	default:
		opts = append(opts, WithPostSSEEnabled(false))
	}
	srv := NewServer("srv", "1.0", opts...)
	log := &verifToolLog{}
	srv.RegisterTool(NewTool("t"), verifToolHandler(log, 0, "hello"))
	srv.RegisterPrompt(&Prompt{Name: "p"}, func(ctx context.Context, r *GetPromptRequest) (*GetPromptResult, error) {
		return &GetPromptResult{Messages: []PromptMessage{{Role: RoleUser, Content: NewTextContent("hi")}}}, nil
	})
	srv.RegisterResource(&Resource{URI: "file:///r", Name: "r"}, func(ctx context.Context, r *ReadResourceRequest) (ResourceContents, error) {
		return TextResourceContents{URI: "file:///r", Text: "body"}, nil
	})
	session := ""
	if mode == 3 {
		rec := newVerifRecorder()
		srv.httpHandler.ServeHTTP(rec, verifRequest("POST", "/mcp",
			[]byte(`{"jsonrpc":"2.0","id":0,"method":"initialize","params":{"protocolVersion":"2025-03-26"}}`), "Accept", accept))
		session = rec.header.Get("Mcp-Session-Id")
		vAssume(rec.code() == 200 && session != "")
	}
	return srv, session, accept
}

func H_C06_streamable() {
	mode := vChoice("mode", 4)
	srv, live, accept := c06Server(mode)
	verb := []string{"POST", "GET", "DELETE", "PUT"}[vChoice("verb", 4)]
	var sid string
	switch vChoice("sessionHeader", 3) {
	case 0:
		sid = ""
	case 1:
		sid = live
	default:
		sid = "00000000000000000000000000000000"
	}
	if verb == "GET" && sid != "" && sid == live {
		// a GET with a live session opens a stream and blocks: that exchange is C04/C11's subject
		vReach("skipped-live-get")
		return
	}
	var body []byte
	switch vChoice("bodyKind", 3) {
	case 0:
		body = vJSON("req", 2)
	case 1:
		body = vJSONInvalid()
	default:
		// a well-formed envelope for a served method with arbitrary params (every JSON kind in every field the handlers read)
		body = c06MethodDoc()
	}
	rec := newVerifRecorder()
	srv.httpHandler.ServeHTTP(rec, verifRequest(verb, "/mcp", body, "Accept", accept, "Mcp-Session-Id", sid))
	st := rec.code()
	deletedLive := verb == "DELETE" && sid != "" && sid == live
	// every input is answered: a refusal status, 202 for accepted notifications/responses, a frame, or the bare 200 of a successful DELETE
	vAssert("answered-with-status-or-frame", vOr(vOr(st >= 300, deletedLive), vOr(st == 202, len(rec.body) > 0)))
	if verb == "DELETE" && sid != "" && sid == live && st == 200 {
		// the session is gone: the follow-up needs a new one
		live = ""
	}
	// the next well-formed request is served normally
	rec2 := newVerifRecorder()
	if mode == 3 && live == "" {
		srv.httpHandler.ServeHTTP(rec2, verifRequest("POST", "/mcp",
			[]byte(`{"jsonrpc":"2.0","id":5,"method":"initialize","params":{"protocolVersion":"2025-03-26"}}`), "Accept", accept))
		vAssert("follow-up-initialize-served", vAnd(rec2.code() == 200, len(rec2.body) > 0))
	} else {
		srv.httpHandler.ServeHTTP(rec2, verifRequest("POST", "/mcp", []byte(`{"jsonrpc":"2.0","id":7,"method":"ping"}`), "Accept", accept, "Mcp-Session-Id", live))
		vAssert("follow-up-ping-200", rec2.code() == 200)
		frame, ok := c03FrameOf(rec2, mode == 1)
		vAssert("follow-up-ping-frame", ok)
		if ok {
			res, hasRes, _, _ := verifResponse(frame, float64(7))
			vAssert("follow-up-ping-result", vAnd(hasRes, verifIsObject(res)))
		}
	}
	vReach("end")
}

// c06MethodDoc: tools/call, prompts/get or resources/read addressed to a registered entry, or any served method, with lazy params.
func c06MethodDoc() []byte {
	methods := []string{"tools/call", "prompts/get", "resources/read", "initialize", "completion/complete", "resources/subscribe"}
	m := methods[vChoice("method", len(methods))]
	params := vJSON("params", 2)
	doc := map[string]interface{}{"jsonrpc": "2.0", "id": 3, "method": m, "params": json.RawMessage(params)}
	b, err := json.Marshal(doc)
	if err != nil {
		panic(err)
	}
	return b
}

func c03FrameOf(rec *verifRecorder, sse bool) (interface{}, bool) {
	if !sse {
		return verifParse(rec.body)
	}
	var data string
	n := 0
	for _, line := range strings.Split(string(rec.body), "\n") {
		if strings.HasPrefix(line, "data: ") {
			data += strings.TrimPrefix(line, "data: ")
			n++
		}
	}
	if n == 0 {
		return nil, false
	}
	return verifParse([]byte(data))
}

func H_C06_stdio() {
	srv := NewStdioServer("srv", "1.0")
	log := &verifToolLog{}
	srv.RegisterTool(NewTool("t"), verifToolHandler(log, 0, "hello"))
	srv.RegisterPrompt(&Prompt{Name: "p"}, func(ctx context.Context, r *GetPromptRequest) (*GetPromptResult, error) {
		return &GetPromptResult{Messages: []PromptMessage{{Role: RoleUser, Content: NewTextContent("hi")}}}, nil
	})
	srv.RegisterResource(&Resource{URI: "file:///r", Name: "r"}, func(ctx context.Context, r *ReadResourceRequest) (ResourceContents, error) {
		return TextResourceContents{URI: "file:///r", Text: "body"}, nil
	})
	tr := newStdioTransport(srv.internal)
	w := &verifWriter2{}
	var line string
	switch vChoice("lineKind", 4) {
	case 0:
		line = string(vJSON("req", 3))
	case 1:
		line = string(vJSONInvalid())
	case 2:
		line = string(c06MethodDoc())
	default:
		line = "   "
	}
	tr.processMessage(context.Background(), line+"\n", w)
	vQuiesce()
	before := len(w.data)
	tr.processMessage(context.Background(), `{"jsonrpc":"2.0","id":7,"method":"ping"}`+"\n", w)
	vAssert("follow-up-ping-answered", len(w.data) > before)
	vReach("end")
}

type verifWriter2 struct {
	data   []byte
	writes int
}

func (w *verifWriter2) Write(p []byte) (int, error) {
	w.data = append(w.data, p...)
	w.writes++
	return len(p), nil
}

func H_C06_sse() {
	srv := NewSSEServer("srv", "1.0")
	log := &verifToolLog{}
	srv.RegisterTool(NewTool("t"), verifToolHandler(log, 0, "hello"))
	srv.RegisterPrompt(&Prompt{Name: "p"}, func(ctx context.Context, r *GetPromptRequest) (*GetPromptResult, error) {
		return &GetPromptResult{Messages: []PromptMessage{{Role: RoleUser, Content: NewTextContent("hi")}}}, nil
	})
	srv.RegisterResource(&Resource{URI: "file:///r", Name: "r"}, func(ctx context.Context, r *ReadResourceRequest) (ResourceContents, error) {
		return TextResourceContents{URI: "file:///r", Text: "body"}, nil
	})
	session := &sseSession{done: make(chan struct{}), eventQueue: make(chan string, 100), sessionID: "s1",
		notificationChannel: make(chan *JSONRPCNotification, 100), data: make(map[string]interface{})}
	srv.sessions.Store("s1", session)
	verb := []string{"POST", "GET", "DELETE"}[vChoice("verb", 3)]
	var q string
	switch vChoice("query", 3) {
	case 0:
		q = "sessionId=s1"
	case 1:
		q = "sessionId=nope"
	default:
		q = ""
	}
	var body []byte
	switch vChoice("bodyKind", 3) {
	case 0:
		body = vJSON("req", 3)
	case 1:
		body = vJSONInvalid()
	default:
		body = c06MethodDoc()
	}
	rec := newVerifRecorder()
	req := verifRequest(verb, "/message", body)
	req.URL.RawQuery = q
	srv.ServeHTTP(rec, req)
	vQuiesce()
	// drain whatever the first exchange queued
	for len(session.eventQueue) > 0 {
		<-session.eventQueue
	}
	rec2 := newVerifRecorder()
	req2 := verifRequest("POST", "/message", []byte(`{"jsonrpc":"2.0","id":7,"method":"ping"}`))
	req2.URL.RawQuery = "sessionId=s1"
	srv.ServeHTTP(rec2, req2)
	vAssert("follow-up-ping-accepted", rec2.code() == 202)
	got := false
	select {
	case ev := <-session.eventQueue:
		got = strings.HasPrefix(ev, "event: message\ndata: ")
	case <-time.After(300 * time.Millisecond):
	}
	vAssert("follow-up-ping-answered", got)
	vReach("end")
}
