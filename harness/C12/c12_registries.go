//verif:pkg .
//verif:use servers_mcp
//verif:bound sequential (one-step inductive): a tool / prompt / resource registry holding 0..2 entries with symbolic names (printable ASCII <= 4) plus one operation {register new or existing name (resources: through RegisterResource or RegisterResources), unregister, list, call/get/read of a present or absent name}; concurrent: register || {list, call, get, read} on each registry and register/unregister || list on notification-handler tables with 2 goroutines under the engine's happens-before race detector, each reported pair confirmed with go test -race; a call racing the unregistration of its tool, a prompts/get racing a re-registration; two concurrent registrations of the same new name (tools, prompts, resources) and unregister vs register of one tool under every schedule with <= 2 (thorough 3) preemptions at synchronisation operations, violations confirmed natively by holding the preempted goroutine at the recorded operation
//verif:assume linearizability with more than two goroutines is outside the claim
package mcp

import (
	"context"
)

func c12Names(m map[string]bool, list []string) bool {
	if len(list) != len(m) {
		return false
	}
	seen := map[string]bool{}
	for _, n := range list {
		if !m[n] || seen[n] {
			return false
		}
		seen[n] = true
	}
	return true
}

func c12ToolHandler(tag string) toolHandler {
	return func(ctx context.Context, r *CallToolRequest) (*CallToolResult, error) { return NewTextResult(tag), nil }
}

func c12CallTool(tm *toolManager, name string) (string, bool) {
	req := &JSONRPCRequest{JSONRPC: "2.0", ID: 1, Request: Request{Method: MethodToolsCall}, Params: map[string]interface{}{"name": name}}
	out, _ := tm.handleCallTool(context.Background(), req, nil)
	if res, ok := out.(*CallToolResult); ok && len(res.Content) == 1 {
		if tc, ok := res.Content[0].(TextContent); ok {
			return tc.Text, true
		}
	}
	return "", false
}

// H_C12_tools_step: registry invariants after one operation from an arbitrary small registry.
func H_C12_tools_step() {
	tm := newToolManager()
	model := map[string]string{} // name -> handler tag
	var order []string
	n := vChoice("entries", 3)
	for i := 0; i < n; i++ {
		name := vString("name", 4)
		vAssume(name != "")
		if _, dup := model[name]; !dup {
			order = append(order, name)
		}
		tag := []string{"h0", "h1"}[i]
		model[name] = tag
		tm.registerTool(NewTool(name), c12ToolHandler(tag))
	}
	arg := vString("arg", 4)
	switch vChoice("op", 3) {
	case 0: // register (new name or replacement)
		if arg != "" {
			if _, dup := model[arg]; !dup {
				order = append(order, arg)
			}
			model[arg] = "new"
		}
		tm.registerTool(NewTool(arg), c12ToolHandler("new"))
	case 1: // unregister
		cnt := tm.unregisterTools(arg)
		_, had := model[arg]
		vAssert("unregister-count", (cnt == 1) == (had && arg != ""))
		if arg != "" && had {
			delete(model, arg)
			var no []string
			for _, o := range order {
				if o != arg {
					no = append(no, o)
				}
			}
			order = no
		}
	default:
	}
	// invariant: order slice = key set, no duplicates
	set := map[string]bool{}
	for k := range model {
		set[k] = true
	}
	vAssert("order-slice-matches-keys", c12Names(set, tm.toolsOrder))
	// list shows exactly the registered set
	out, _ := tm.handleListTools(context.Background(), &JSONRPCRequest{}, nil)
	lr, ok := out.(ListToolsResult)
	vAssert("list-result", ok)
	var listed []string
	for _, t := range lr.Tools {
		listed = append(listed, t.Name)
	}
	vAssert("list-exactly-registered", c12Names(set, listed))
	// calls reach the current handler; absent names fail
	probe := vString("probe", 4)
	text, served := c12CallTool(tm, probe)
	tag, present := model[probe]
	vAssert("present-served-absent-refused", served == (present && probe != ""))
	if served && present {
		vAssert("current-handler-runs", text == tag)
	}
	vReach("end")
}

func H_C12_resources_step() {
	rm := newResourceManager()
	model := map[string]bool{}
	var order []string
	n := vChoice("entries", 3)
	for i := 0; i < n; i++ {
		uri := vString("uri", 4)
		vAssume(uri != "")
		if !model[uri] {
			order = append(order, uri)
		}
		model[uri] = true
		// through either registration entry point: the single-content one or the multi-content one
		if vBool("viaRegisterResources") {
			rm.registerResources(&Resource{URI: uri, Name: "r"}, func(ctx context.Context, r *ReadResourceRequest) ([]ResourceContents, error) {
				return []ResourceContents{TextResourceContents{URI: uri, Text: "t"}}, nil
			})
		} else {
			rm.registerResource(&Resource{URI: uri, Name: "r"}, func(ctx context.Context, r *ReadResourceRequest) (ResourceContents, error) {
				return TextResourceContents{URI: uri, Text: "t"}, nil
			})
		}
	}
	arg := vString("arg", 4)
	if vBool("registerMore") {
		if arg != "" {
			if !model[arg] {
				order = append(order, arg)
			}
			model[arg] = true
		}
		if vBool("viaRegisterResources") {
			rm.registerResources(&Resource{URI: arg, Name: "r2"}, func(ctx context.Context, r *ReadResourceRequest) ([]ResourceContents, error) {
				return []ResourceContents{TextResourceContents{URI: arg, Text: "new"}}, nil
			})
		} else {
			rm.registerResource(&Resource{URI: arg, Name: "r2"}, func(ctx context.Context, r *ReadResourceRequest) (ResourceContents, error) {
				return TextResourceContents{URI: arg, Text: "new"}, nil
			})
		}
	}
	out, _ := rm.handleListResources(context.Background(), &JSONRPCRequest{})
	lr, ok := out.(ListResourcesResult)
	vAssert("list-result", ok)
	vAssert("list-length", len(lr.Resources) == len(order))
	if len(lr.Resources) == len(order) {
		for i := range order {
			vAssert("resources-in-registration-order", lr.Resources[i].URI == order[i])
		}
	}
	probe := vString("probe", 4)
	req := &JSONRPCRequest{JSONRPC: "2.0", ID: 1, Request: Request{Method: MethodResourcesRead}, Params: map[string]interface{}{"uri": probe}}
	res, _ := rm.handleReadResource(context.Background(), req)
	_, served := res.(ReadResourceResult)
	vAssert("present-served-absent-refused", served == model[probe])
	vReach("end")
}

func H_C12_prompts_step() {
	pm := newPromptManager()
	model := map[string]bool{}
	n := vChoice("entries", 3)
	for i := 0; i < n; i++ {
		name := vString("name", 4)
		vAssume(name != "")
		model[name] = true
		pm.registerPrompt(&Prompt{Name: name}, func(ctx context.Context, r *GetPromptRequest) (*GetPromptResult, error) {
			return &GetPromptResult{Description: name}, nil
		})
	}
	out, _ := pm.handleListPrompts(context.Background(), &JSONRPCRequest{})
	lr, ok := out.(*ListPromptsResult)
	vAssert("list-result", ok)
	var listed []string
	if ok {
		for _, p := range lr.Prompts {
			listed = append(listed, p.Name)
		}
	}
	vAssert("list-exactly-registered", c12Names(model, listed))
	probe := vString("probe", 4)
	req := &JSONRPCRequest{JSONRPC: "2.0", ID: 1, Request: Request{Method: MethodPromptsGet}, Params: map[string]interface{}{"name": probe}}
	res, _ := pm.handleGetPrompt(context.Background(), req)
	gr, served := res.(*GetPromptResult)
	vAssert("present-served-absent-refused", served == model[probe])
	if served {
		vAssert("own-handler", gr.Description == probe)
	}
	vReach("end")
}

// ---- concurrent: registration while serving (happens-before race detection) ----

func c12Concurrently(a, b func()) {
	done := make(chan struct{})
	go func() {
		a()
		close(done)
	}()
	b()
	<-done
}

func H_C12_tools_concurrent() {
	vRace(true)
	tm := newToolManager()
	tm.registerTool(NewTool("a"), c12ToolHandler("a"))
	reader := vChoice("reader", 3)
	c12Concurrently(func() {
		tm.registerTool(NewTool("b"), c12ToolHandler("b"))
		tm.unregisterTools("a")
	}, func() {
		switch reader {
		case 0:
			tm.handleListTools(context.Background(), &JSONRPCRequest{}, nil)
		case 1:
			c12CallTool(tm, "a")
		default:
			tm.getTool("b")
		}
	})
	vReach("end")
}

func H_C12_prompts_concurrent() {
	vRace(true)
	pm := newPromptManager()
	pm.registerPrompt(&Prompt{Name: "a"}, nil)
	reader := vChoice("reader", 2)
	c12Concurrently(func() {
		pm.registerPrompt(&Prompt{Name: "b"}, nil)
	}, func() {
		if reader == 0 {
			pm.handleListPrompts(context.Background(), &JSONRPCRequest{})
		} else {
			req := &JSONRPCRequest{JSONRPC: "2.0", ID: 1, Request: Request{Method: MethodPromptsGet}, Params: map[string]interface{}{"name": "a"}}
			pm.handleGetPrompt(context.Background(), req)
		}
	})
	vReach("end")
}

func H_C12_resources_concurrent() {
	vRace(true)
	rm := newResourceManager()
	h := func(ctx context.Context, r *ReadResourceRequest) (ResourceContents, error) {
		return TextResourceContents{URI: "u", Text: "t"}, nil
	}
	rm.registerResource(&Resource{URI: "a", Name: "a"}, h)
	reader := vChoice("reader", 2)
	c12Concurrently(func() {
		rm.registerResource(&Resource{URI: "b", Name: "b"}, h)
	}, func() {
		if reader == 0 {
			rm.handleListResources(context.Background(), &JSONRPCRequest{})
		} else {
			req := &JSONRPCRequest{JSONRPC: "2.0", ID: 1, Request: Request{Method: MethodResourcesRead}, Params: map[string]interface{}{"uri": "a"}}
			rm.handleReadResource(context.Background(), req)
		}
	})
	vReach("end")
}

func H_C12_notification_handlers_concurrent() {
	vRace(true)
	srv := NewServer("srv", "1.0", WithStatelessMode(true))
	h := func(ctx context.Context, n *JSONRPCNotification) error { return nil }
	srv.RegisterNotificationHandler("n/a", h)
	c12Concurrently(func() {
		srv.RegisterNotificationHandler("n/b", h)
		srv.UnregisterNotificationHandler("n/a")
	}, func() {
		srv.handleServerNotification(context.Background(), &JSONRPCNotification{JSONRPC: "2.0", Notification: Notification{Method: "n/a"}})
	})
	vReach("end")
}

// ---- concurrent: two registrations of the same new name under every schedule (preemption-bounded) ----

func c12Explore(a, b func()) {
	budget := 2
	if vTier() == 1 {
		budget = 3
	}
	done := make(chan struct{}, 2)
	start := make(chan struct{})
	// the happens-before race detector is on as well: an entry modified in place while a reader uses it
	// without the lock is a violation even when the values read happen to be consistent
	vRace(true)
	vSched(true, budget)
	go func() {
		<-start
		a()
		done <- struct{}{}
	}()
	go func() {
		<-start
		b()
		done <- struct{}{}
	}()
	close(start)
	<-done
	<-done
	vSched(false, 0)
	vRace(false)
}

// H_C12_resources_same_uri_twice: two goroutines register the same not-yet-registered URI (and a third entry
// exists already): the registry lists it exactly once, in registration order, whatever the interleaving.
func H_C12_resources_same_uri_twice() {
	rm := newResourceManager()
	h := func(tag string) resourceHandler {
		return func(ctx context.Context, r *ReadResourceRequest) (ResourceContents, error) {
			return TextResourceContents{URI: r.Params.URI, Text: tag}, nil
		}
	}
	rm.registerResource(&Resource{URI: "first", Name: "first"}, h("first"))
	c12Explore(func() { rm.registerResource(&Resource{URI: "shared", Name: "a"}, h("a")) },
		func() { rm.registerResource(&Resource{URI: "shared", Name: "b"}, h("b")) })
	out, _ := rm.handleListResources(context.Background(), &JSONRPCRequest{})
	lr, ok := out.(ListResourcesResult)
	vAssert("list-result", ok)
	vAssert("listed-once-in-order", vAnd(len(lr.Resources) == 2, len(lr.Resources) == 2 && lr.Resources[0].URI == "first" && lr.Resources[1].URI == "shared"))
	if len(lr.Resources) == 2 {
		// the entry is one of the two registrations, not a mixture
		vAssert("entry-not-torn", vOr(lr.Resources[1].Name == "a", lr.Resources[1].Name == "b"))
	}
	vReach("end")
}

func H_C12_tools_same_name_twice() {
	tm := newToolManager()
	tm.registerTool(NewTool("first"), c12ToolHandler("first"))
	c12Explore(func() { tm.registerTool(NewTool("shared"), c12ToolHandler("a")) },
		func() { tm.registerTool(NewTool("shared"), c12ToolHandler("b")) })
	out, _ := tm.handleListTools(context.Background(), &JSONRPCRequest{}, nil)
	lr, ok := out.(ListToolsResult)
	vAssert("list-result", ok)
	var listed []string
	for _, t := range lr.Tools {
		listed = append(listed, t.Name)
	}
	vAssert("listed-once", c12Names(map[string]bool{"first": true, "shared": true}, listed))
	vAssert("order-slice-has-no-duplicate", c12Names(map[string]bool{"first": true, "shared": true}, tm.toolsOrder))
	text, served := c12CallTool(tm, "shared")
	vAssert("one-of-the-two-handlers", vAnd(served, text == "a" || text == "b"))
	vReach("end")
}

func H_C12_tools_register_unregister_race() {
	tm := newToolManager()
	tm.registerTool(NewTool("first"), c12ToolHandler("first"))
	tm.registerTool(NewTool("x"), c12ToolHandler("x0"))
	c12Explore(func() { tm.unregisterTools("x") },
		func() { tm.registerTool(NewTool("x"), c12ToolHandler("x1")) })
	out, _ := tm.handleListTools(context.Background(), &JSONRPCRequest{}, nil)
	lr, _ := out.(ListToolsResult)
	n := 0
	for _, t := range lr.Tools {
		if t.Name == "x" {
			n++
		}
	}
	vAssert("listed-at-most-once", n <= 1)
	_, served := c12CallTool(tm, "x")
	vAssert("listed-iff-callable", served == (n == 1))
	cnt := 0
	for _, o := range tm.toolsOrder {
		if o == "x" {
			cnt++
		}
	}
	vAssert("order-slice-consistent", cnt == n)
	vReach("end")
}

func H_C12_prompts_same_name_twice() {
	pm := newPromptManager()
	reg := func(tag string) func() {
		return func() {
			pm.registerPrompt(&Prompt{Name: "shared", Description: tag}, func(ctx context.Context, r *GetPromptRequest) (*GetPromptResult, error) {
				return &GetPromptResult{Description: tag}, nil
			})
		}
	}
	c12Explore(reg("a"), reg("b"))
	out, _ := pm.handleListPrompts(context.Background(), &JSONRPCRequest{})
	lr, ok := out.(*ListPromptsResult)
	vAssert("list-result", ok)
	if ok {
		vAssert("listed-once", len(lr.Prompts) == 1)
		if len(lr.Prompts) == 1 {
			req := &JSONRPCRequest{JSONRPC: "2.0", ID: 1, Request: Request{Method: MethodPromptsGet}, Params: map[string]interface{}{"name": "shared"}}
			res, _ := pm.handleGetPrompt(context.Background(), req)
			gr, served := res.(*GetPromptResult)
			vAssert("served", served)
			if served {
				// atomic replacement: the listed descriptor and the handler that runs belong to the same registration
				vAssert("descriptor-and-handler-from-one-registration", gr.Description == lr.Prompts[0].Description)
			}
		}
	}
	vReach("end")
}

// H_C12_tools_call_vs_unregister: a call of a tool that is being unregistered either reaches its handler or is
// refused as not found - never a crash - under every schedule; a tool registered throughout is always served.
func H_C12_tools_call_vs_unregister() {
	tm := newToolManager()
	tm.registerTool(NewTool("stays"), c12ToolHandler("stays"))
	tm.registerTool(NewTool("x"), c12ToolHandler("x0"))
	which := vChoice("called", 2)
	name := []string{"x", "stays"}[which]
	var text string
	var served bool
	c12Explore(func() { tm.unregisterTools("x") },
		func() { text, served = c12CallTool(tm, name) })
	if which == 1 {
		vAssert("registered-throughout-is-served", vAnd(served, text == "stays"))
	} else if served {
		vAssert("served-by-its-handler", text == "x0")
	}
	_, after := c12CallTool(tm, "x")
	vAssert("not-found-after-unregister", !after)
	vReach("end")
}

func H_C12_prompts_get_vs_register() {
	pm := newPromptManager()
	mk := func(tag string) promptHandler {
		return func(ctx context.Context, r *GetPromptRequest) (*GetPromptResult, error) {
			return &GetPromptResult{Description: tag}, nil
		}
	}
	pm.registerPrompt(&Prompt{Name: "p", Description: "old"}, mk("old"))
	var desc string
	var served bool
	c12Explore(func() { pm.registerPrompt(&Prompt{Name: "p", Description: "new"}, mk("new")) },
		func() {
			req := &JSONRPCRequest{JSONRPC: "2.0", ID: 1, Request: Request{Method: MethodPromptsGet}, Params: map[string]interface{}{"name": "p"}}
			res, _ := pm.handleGetPrompt(context.Background(), req)
			if gr, ok := res.(*GetPromptResult); ok {
				desc, served = gr.Description, true
			}
		})
	vAssert("registered-throughout-is-served", served)
	vAssert("one-of-the-two-handlers", vOr(desc == "old", desc == "new"))
	vReach("end")
}
