//verif:pkg .
//verif:use servers_mcp
//verif:bound framing: one message of 1..5 (thorough: 1..9) symbolic bytes (every byte >= 0x20, or LF) through sseutil.Writer.WriteEvent, formatSSEEvent and the stdio line writer, read back by a reference reader; interleaving: two writers on one stream whose Write is adversarial (one Write - every choice of which - blocks after its bytes were recorded until another writer has written and gone quiet, or 100 ms passed): two stdio responses, two notifications on one GET stream, a server-issued request and a notification on one GET stream, a response and a notification on one legacy SSE session, the keep-alive comment of a legacy session while a frame's Write is in progress (partly written)
//verif:bound long messages: one concrete JSON message of 4095, 4096, 4097, 65535, 65536, 65537, 70000 or 200000 bytes through sseutil.Writer.WriteEvent, formatSSEEvent and the stdio line writer, read back as one frame
//verif:assume JSON text contains no byte < 0x20 (json.Marshal escapes control characters, U+2028 and U+2029); pipe-buffer / bufio size boundaries and json.Encoder internals are outside the claim
package mcp

import (
	"encoding/json"
	"context"
	"net/http"
	"strings"
	"time"

	"trpc.group/trpc-go/trpc-mcp-go/internal/sseutil"
)

// c09ReadSSE is a reference SSE reader (WHATWG event-stream parsing restricted to LF line ends, which
// is all the writers emit): it returns the data payloads of the events in the stream.
func c09ReadSSE(stream string) ([]string, bool) {
	var events []string
	var data []string
	have := false
	lines := strings.Split(stream, "\n")
	if lines[len(lines)-1] != "" {
		return nil, false // the stream must end with a line terminator
	}
	lines = lines[:len(lines)-1]
	for _, line := range lines {
		switch {
		case line == "":
			if have {
				events = append(events, strings.Join(data, "\n"))
			}
			data, have = nil, false
		case strings.HasPrefix(line, ":"):
			// comment
		case strings.HasPrefix(line, "data: "):
			data = append(data, strings.TrimPrefix(line, "data: "))
			have = true
		case strings.HasPrefix(line, "data:"):
			data = append(data, strings.TrimPrefix(line, "data:"))
			have = true
		case strings.HasPrefix(line, "id:"), strings.HasPrefix(line, "event:"), strings.HasPrefix(line, "retry:"):
		default:
			return nil, false // a line that is neither a field nor a comment
		}
	}
	if have {
		return nil, false // unterminated event
	}
	return events, true
}

func c09Payload() string {
	// 1..5 bytes (thorough: 1..9) of a message: anything >= 0x20, or a line feed (pretty-printed JSON); not starting with a
	// space (the SSE field separator swallows one) and not ending with LF (the writers trim one)
	max := 5
	if vTier() >= 1 {
		max = 9
	}
	n := vChoice("len", max) + 1
	b := make([]byte, n)
	for i := range b {
		b[i] = vUint8("byte")
		vAssume(b[i] >= 0x20 || b[i] == '\n')
	}
	vAssume(b[0] != ' ' && b[n-1] != '\n')
	return string(b)
}

func H_C09_sse_writer_single() {
	p := c09Payload()
	rec := newVerifRecorder()
	w := sseutil.NewWriter()
	err := w.WriteEvent(rec, sseutil.Event{ID: "evt-1-1", Data: []byte(p)})
	vAssert("write-ok", err == nil)
	evs, ok := c09ReadSSE(string(rec.body))
	vAssert("stream-parses", ok)
	vAssert("one-event", len(evs) == 1)
	if len(evs) == 1 {
		vAssert("payload-recovered", evs[0] == p)
	}
	vReach("end")
}

func H_C09_legacy_format_single() {
	p := c09Payload()
	out := formatSSEEvent("message", []byte(p))
	evs, ok := c09ReadSSE(out)
	vAssert("stream-parses", ok)
	vAssert("one-event", len(evs) == 1)
	if len(evs) == 1 {
		vAssert("payload-recovered", evs[0] == p)
	}
	vReach("end")
}

// ---- adversarial writer ----

// c09Gate records writes; the k-th Write (0-based) blocks after recording until another Write happened
// (or 100 ms passed), as a slow pipe could.
type c09Gate struct {
	data    []byte
	n       int
	blockAt int
	split   bool // the blocking Write is "in progress": its first bytes are on the wire when it blocks
	inWrite int  // Writes currently executing
	overlap bool // a Write began while another one was still executing
	other   chan struct{}
	header  http.Header
}

func newC09Gate(blockAt int) *c09Gate {
	return &c09Gate{blockAt: blockAt, other: make(chan struct{}, 16), header: http.Header{}}
}

func (g *c09Gate) Write(p []byte) (int, error) {
	k := g.n
	g.n++
	if g.inWrite > 0 {
		g.overlap = true
	}
	g.inWrite++
	defer func() { g.inWrite-- }()
	rest := []byte(nil)
	if k == g.blockAt && g.split && strings.HasPrefix(string(p), "event: ") {
		// the first bytes of the frame are out, the rest follows when the Write resumes
		g.data = append(g.data, []byte("event: ")...)
		rest = p[len("event: "):]
	} else {
		g.data = append(g.data, p...)
	}
	defer func() { g.data = append(g.data, rest...) }()
	if k == g.blockAt {
		// forget the writes that happened before: wait for a Write issued from now on, then until the
		// other writer has been quiet for 20 ms (or give up after 100 ms when nobody else writes)
		for drained := false; !drained; {
			select {
			case <-g.other:
			default:
				drained = true
			}
		}
		select {
		case <-g.other:
			for quiet := false; !quiet; {
				select {
				case <-g.other:
				case <-time.After(20 * time.Millisecond):
					quiet = true
				}
			}
		case <-time.After(100 * time.Millisecond):
		}
	} else {
		select {
		case g.other <- struct{}{}:
		default:
		}
	}
	return len(p), nil
}

// c09Lines: reference stdio reader: newline-terminated lines, each one JSON message.
func c09Lines(stream string) ([]interface{}, bool) {
	if stream == "" || !strings.HasSuffix(stream, "\n") {
		return nil, false
	}
	var msgs []interface{}
	for _, line := range strings.Split(strings.TrimSuffix(stream, "\n"), "\n") {
		doc, ok := verifParse([]byte(line))
		if !ok {
			return nil, false
		}
		msgs = append(msgs, doc)
	}
	return msgs, true
}

func c09IDs(msgs []interface{}) (bool, bool) {
	a, b := false, false
	for _, m := range msgs {
		o, _ := verifObj(m)
		switch o["id"] {
		case "A":
			a = true
		case "B":
			b = true
		}
	}
	return a, b
}

func H_C09_stdio_two_responses() {
	srv := NewStdioServer("srv", "1.0")
	tr := newStdioTransport(srv.internal)
	g := newC09Gate(vChoice("blockAt", 4))
	done := make(chan struct{}, 2)
	go func() {
		tr.processMessage(context.Background(), `{"jsonrpc":"2.0","id":"A","method":"ping"}`+"\n", g)
		done <- struct{}{}
	}()
	go func() {
		tr.processMessage(context.Background(), `{"jsonrpc":"2.0","id":"B","method":"ping"}`+"\n", g)
		done <- struct{}{}
	}()
	<-done
	<-done
	msgs, ok := c09Lines(string(g.data))
	vAssert("writes-are-mutually-exclusive", !g.overlap)
	vAssert("every-line-is-one-message", ok)
	vAssert("two-messages", len(msgs) == 2)
	if ok && len(msgs) == 2 {
		a, b := c09IDs(msgs)
		vAssert("both-responses-recovered", vAnd(a, b))
	}
	vReach("end")
}

type c09GateHTTP struct{ *c09Gate }

func (g c09GateHTTP) Header() http.Header { return g.header }
func (g c09GateHTTP) WriteHeader(int)              {}
func (g c09GateHTTP) Flush()                       {}

func c09Markers(evs []string) (bool, bool, bool) {
	a, b, okAll := false, false, true
	for _, e := range evs {
		doc, ok := verifParse([]byte(e))
		if !ok {
			okAll = false
			continue
		}
		o, _ := verifObj(doc)
		pm, _ := verifObj(o["params"])
		switch pm["m"] {
		case "A":
			a = true
		case "B":
			b = true
		}
		if o["id"] == "A" {
			a = true
		}
	}
	return a, b, okAll
}

func H_C09_get_stream_two_notifications() {
	vRandConcrete(true)
	srv := NewServer("srv", "1.0", WithPostSSEEnabled(false))
	h := srv.httpHandler
	g := c09GateHTTP{newC09Gate(vChoice("blockAt", 6))}
	h.getSSEConnections["s"] = &getSSEConnection{writer: g, flusher: g, sseResponder: newSSEResponder()}
	done := make(chan struct{}, 2)
	send := func(m string) {
		h.sendNotificationToGetSSE("s", NewJSONRPCNotificationFromMap("n/x", map[string]interface{}{"m": m}))
		done <- struct{}{}
	}
	go send("A")
	go send("B")
	<-done
	<-done
	evs, ok := c09ReadSSE(string(g.data))
	vAssert("writes-are-mutually-exclusive", !g.overlap)
	vAssert("stream-parses", ok)
	vAssert("two-events", len(evs) == 2)
	a, b, all := c09Markers(evs)
	vAssert("each-event-is-one-message", all)
	vAssert("both-notifications-recovered", vAnd(a, b))
	vReach("end")
}

// H_C09_get_stream_request_and_notification: a server-issued request and a notification to the same session.
func H_C09_get_stream_request_and_notification() {
	vRandConcrete(true)
	srv := NewServer("srv", "1.0", WithPostSSEEnabled(false))
	h := srv.httpHandler
	g := c09GateHTTP{newC09Gate(vChoice("blockAt", 6))}
	h.getSSEConnections["s"] = &getSSEConnection{writer: g, flusher: g, sseResponder: newSSEResponder()}
	ctx, cancel := context.WithCancel(context.Background())
	done := make(chan struct{}, 2)
	first := vChoice("first", 2)
	req := func() {
		h.SendRequest(ctx, "s", &JSONRPCRequest{JSONRPC: "2.0", ID: "A", Request: Request{Method: "roots/list"}})
		done <- struct{}{}
	}
	note := func() {
		h.sendNotificationToGetSSE("s", NewJSONRPCNotificationFromMap("n/x", map[string]interface{}{"m": "B"}))
		done <- struct{}{}
	}
	if first == 0 {
		go req()
		go note()
	} else {
		go note()
		go req()
	}
	<-done
	vQuiesce()
	time.Sleep(150 * time.Millisecond)
	vQuiesce()
	cancel()
	<-done
	evs, ok := c09ReadSSE(string(g.data))
	vAssert("writes-are-mutually-exclusive", !g.overlap)
	vAssert("stream-parses", ok)
	vAssert("two-events", len(evs) == 2)
	a, b, all := c09Markers(evs)
	vAssert("each-event-is-one-message", all)
	vAssert("both-frames-recovered", vAnd(a, b))
	vReach("end")
}

func H_C09_legacy_session_writers() {
	srv := NewSSEServer("srv", "1.0")
	session := &sseSession{done: make(chan struct{}), eventQueue: make(chan string, 100), sessionID: "s1",
		notificationChannel: make(chan *JSONRPCNotification, 100), data: make(map[string]interface{})}
	srv.sessions.Store("s1", session)
	g := c09GateHTTP{newC09Gate(vChoice("blockAt", 3))}
	ctx, cancel := context.WithCancel(context.Background())
	go handleNotifications(ctx, srv.logger, g, g, session)
	go handleEventQueue(ctx, srv.logger, g, g, session)
	session.eventQueue <- formatSSEEvent("message", []byte(`{"jsonrpc":"2.0","id":"A","result":{}}`))
	session.notificationChannel <- NewJSONRPCNotificationFromMap("n/x", map[string]interface{}{"m": "B"})
	vQuiesce()
	time.Sleep(150 * time.Millisecond)
	vQuiesce()
	cancel()
	session.writeMu.Lock()
	out := string(g.data)
	session.writeMu.Unlock()
	evs, ok := c09ReadSSE(out)
	vAssert("writes-are-mutually-exclusive", !g.overlap)
	vAssert("stream-parses", ok)
	vAssert("two-events", len(evs) == 2)
	a, b, all := c09Markers(evs)
	vAssert("each-event-is-one-message", all)
	vAssert("both-frames-recovered", vAnd(a, b))
	vReach("end")
}

// H_C09_legacy_keepalive_vs_frame: the keep-alive ticker of a legacy SSE session fires while a frame of the
// same session is being written (the frame's Write is in progress: its first bytes are out).
func H_C09_legacy_keepalive_vs_frame() {
	vTickers(true)
	srv := NewSSEServer("srv", "1.0")
	session := &sseSession{done: make(chan struct{}), eventQueue: make(chan string, 100), sessionID: "s1",
		notificationChannel: make(chan *JSONRPCNotification, 100), data: make(map[string]interface{})}
	srv.sessions.Store("s1", session)
	g := c09GateHTTP{newC09Gate(0)}
	g.split = true
	which := vChoice("frame", 2)
	ctx, cancel := context.WithCancel(context.Background())
	go handleNotifications(ctx, srv.logger, g, g, session)
	go handleEventQueue(ctx, srv.logger, g, g, session)
	if which == 0 {
		session.eventQueue <- formatSSEEvent("message", []byte(`{"jsonrpc":"2.0","id":"A","result":{}}`))
	} else {
		session.notificationChannel <- NewJSONRPCNotificationFromMap("n/x", map[string]interface{}{"m": "B"})
	}
	vQuiesce()
	// the frame's Write is blocked half way; now the keep-alive ticker starts firing
	go handleKeepAlive(ctx, srv.logger, g, g, session, 10*time.Millisecond)
	time.Sleep(150 * time.Millisecond)
	vQuiesce()
	cancel()
	vQuiesce()
	session.writeMu.Lock()
	out := string(g.data)
	session.writeMu.Unlock()
	evs, ok := c09ReadSSE(out)
	vAssert("writes-are-mutually-exclusive", !g.overlap)
	vAssert("stream-parses", ok)
	vAssert("one-event", len(evs) == 1)
	a, b, all := c09Markers(evs)
	vAssert("the-event-is-one-message", all)
	vAssert("frame-recovered", vOr(a, b))
	vReach("end")
}

// ---- long messages (bufio / scanner / pipe-buffer size boundaries) ----

// c09Long: a JSON message whose text is exactly n bytes (n >= 40).
func c09Long(n int) []byte {
	head := `{"jsonrpc":"2.0","method":"n/big","p":"`
	tail := `"}`
	return []byte(head + strings.Repeat("a", n-len(head)-len(tail)) + tail)
}

// H_C09_long_messages: one message of a size around the 4 KiB / 64 KiB buffer boundaries through every frame
// writer: read back as exactly one frame carrying the whole message.
func H_C09_long_messages() {
	sizes := []int{4095, 4096, 4097, 65535, 65536, 65537, 70000, 200000}
	n := sizes[vChoice("size", len(sizes))]
	msg := c09Long(n)
	switch vChoice("writer", 3) {
	case 0:
		rec := newVerifRecorder()
		err := sseutil.NewWriter().WriteEvent(rec, sseutil.Event{ID: "evt-1-1", Data: msg})
		vAssert("write-ok", err == nil)
		evs, ok := c09ReadSSE(string(rec.body))
		vAssert("stream-parses", ok)
		vAssert("one-event-with-the-whole-message", vAnd(len(evs) == 1, len(evs) == 1 && evs[0] == string(msg)))
	case 1:
		evs, ok := c09ReadSSE(formatSSEEvent("message", msg))
		vAssert("stream-parses", ok)
		vAssert("one-event-with-the-whole-message", vAnd(len(evs) == 1, len(evs) == 1 && evs[0] == string(msg)))
	default:
		srv := NewStdioServer("srv", "1.0")
		tr := newStdioTransport(srv.internal)
		w := &verifWriter{}
		err := tr.writeResponse(json.RawMessage(msg), w)
		vAssert("write-ok", err == nil)
		msgs, ok := c09Lines(string(w.data))
		vAssert("every-line-is-one-message", vAnd(ok, len(msgs) == 1))
		if ok && len(msgs) == 1 {
			o, _ := verifObj(msgs[0])
			pv, _ := o["p"].(string)
			vAssert("one-line-with-the-whole-message", len(pv) == n-len(`{"jsonrpc":"2.0","method":"n/big","p":""}`))
		}
	}
	vReach("end")
}
