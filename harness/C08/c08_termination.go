//verif:pkg .
//verif:use fakes_client
//verif:use fakes_mcp
//verif:use streams_mcp
//verif:bound one pending call per client and one fault: the answer stream has delivered {nothing, an id line, a partial data line, a complete notification event, the complete answer} when it {ends (EOF), fails (reset), stalls and the caller's context is cancelled, stalls and the deadline passes}; Streamable client with SSE answers (with / without notification handler) and JSON answers cut at {start, middle, end}; legacy SSE client (pending call, then a second call after the stream ended); stdio client transport with {context cancelled, transport timeout, the child process exiting with status 0 or 3 with or without a truncated line before (a real /bin/sh natively, a modelled exec.Cmd whose Wait blocks until the exit in the engine), Close from another goroutine - every schedule with <= 2 preemptions}; legacy SSE client: Close while the reader delivers an answer - every schedule with <= 3 (thorough 4) preemptions; release: goroutines and table entries after Close on each client and after the peer's streams end on the Streamable and legacy SSE servers; Streamable server: the write of a server-issued request to the listening stream fails (at the id line, the data line or the closing blank line), then a notification and a second request (context then cancelled) to the same session; the write of a POST's answer (JSON, or SSE with two in-call notifications) fails from the 1st..8th Write on, then a ping on the session
//verif:assume request bodies observe the request context as net/http's do (a read fails once the context ends); real sockets, child processes and file descriptors are outside the claim (the stdio transport runs over in-memory pipes); faults at byte offsets other than the listed boundaries are outside the bound
package mcp

import (
	"context"
	"encoding/json"
	"errors"
	"io"
	"net/http"
	"os/exec"
	"time"
)

// c08Stream: a response body fed by the scripted peer; a read fails when the request context ends.
type c08Stream struct {
	ch      chan []byte
	done    chan struct{}
	ctx     context.Context
	endErr  error
	closed  bool
	buf     []byte
	closes  int
}

func newC08Stream(ctx context.Context) *c08Stream {
	return &c08Stream{ch: make(chan []byte, 32), done: make(chan struct{}), ctx: ctx, endErr: io.EOF}
}

func (s *c08Stream) VerifNextChunk() ([]byte, error) {
	select {
	case b, ok := <-s.ch:
		if !ok {
			return nil, s.endErr
		}
		return b, nil
	case <-s.done:
		return nil, io.ErrClosedPipe
	case <-s.ctx.Done():
		return nil, s.ctx.Err()
	}
}

func (s *c08Stream) Read(p []byte) (int, error) {
	if len(s.buf) == 0 {
		b, err := s.VerifNextChunk()
		if err != nil {
			return 0, err
		}
		s.buf = b
	}
	n := copy(p, s.buf)
	s.buf = s.buf[n:]
	return n, nil
}

func (s *c08Stream) Close() error {
	s.closes++
	if !s.closed {
		s.closed = true
		close(s.done)
	}
	return nil
}

var errC08Reset = errors.New("connection reset by peer")

func c08Answer(id interface{}, text string) []byte {
	b, _ := json.Marshal(map[string]interface{}{"jsonrpc": "2.0", "id": id,
		"result": map[string]interface{}{"content": []interface{}{map[string]interface{}{"type": "text", "text": text}}}})
	return b
}

func c08TextOf(res *CallToolResult) string {
	if res == nil || len(res.Content) != 1 {
		return ""
	}
	if tc, ok := res.Content[0].(TextContent); ok {
		return tc.Text
	}
	return ""
}

type c08Outcome struct {
	res  *CallToolResult
	err  error
	done chan struct{}
}

func (o *c08Outcome) wait() bool {
	select {
	case <-o.done:
		return true
	case <-time.After(3 * time.Second):
	}
	return false
}

// c08Progress pushes what the peer has sent before the fault; true when the complete answer is among it.
func c08Progress(push func([]byte), progress int, id interface{}, prefix string) bool {
	switch progress {
	case 1:
		push([]byte("id: 1\n"))
	case 2:
		push([]byte(prefix + "data: {\"jsonrpc\""))
	case 3:
		push([]byte(prefix + "data: {\"jsonrpc\":\"2.0\",\"method\":\"n/x\",\"params\":{}}\n\n"))
	case 4:
		push([]byte(prefix + "data: " + string(c08Answer(id, "yours")) + "\n\n"))
		return true
	}
	return false
}

// c08Fault: 0 = stream ends, 1 = stream fails, 2 = stall and cancel, 3 = stall until the deadline
func c08Fault(fault int, s *c08Stream, cancel context.CancelFunc) {
	switch fault {
	case 0:
		close(s.ch)
	case 1:
		s.endErr = errC08Reset
		close(s.ch)
	case 2:
		cancel()
	}
}

// H_C08_streamable_sse_call: a call whose SSE answer stream breaks at a frame boundary.
func H_C08_streamable_sse_call() {
	progress := vChoice("progress", 5)
	fault := vChoice("fault", 4)
	withHandler := vChoice("handler", 2) == 1
	var stream *c08Stream
	var reqID interface{}
	net := &verifNet{}
	net.respond = func(s *verifSent) (*http.Response, error) {
		doc, _ := verifParse(s.body)
		obj, _ := verifObj(doc)
		reqID = obj["id"]
		stream = newC08Stream(s.ctx)
		return &http.Response{StatusCode: 200, Status: "200 OK", Header: http.Header{"Content-Type": []string{"text/event-stream"}}, Body: stream}, nil
	}
	c, err := NewClient("http://h.example/mcp", Implementation{Name: "c", Version: "1"}, WithHTTPReqHandler(&verifReqHandler{net: net}), WithClientGetSSEEnabled(false))
	if err != nil {
		panic(err)
	}
	c.initialized = true
	if withHandler {
		c.RegisterNotificationHandler("n/x", func(n *JSONRPCNotification) error { return nil })
	}
	base := vGoroutines()
	ctx, cancel := context.WithCancel(context.Background())
	if fault == 3 {
		ctx, cancel = context.WithTimeout(context.Background(), 200*time.Millisecond)
	}
	defer cancel()
	out := &c08Outcome{done: make(chan struct{})}
	go func() {
		out.res, out.err = c.CallTool(ctx, &CallToolRequest{Params: CallToolParams{Name: "t"}})
		close(out.done)
	}()
	vQuiesce()
	vAssume(stream != nil)
	answered := c08Progress(func(b []byte) { stream.ch <- b }, progress, reqID, "")
	vQuiesce()
	c08Fault(fault, stream, cancel)
	vAssert("call-returns-after-the-fault", out.wait())
	if !out.wait() {
		return
	}
	if answered {
		vAssert("complete-answer-or-error", vOr(out.err != nil, c08TextOf(out.res) == "yours"))
		if !withHandler {
			vAssert("answer-already-delivered-is-returned", vAnd(out.err == nil, c08TextOf(out.res) == "yours"))
		}
	} else {
		vAssert("no-answer-means-error-never-a-partial-result", vAnd(out.err != nil, out.res == nil))
	}
	vAssert("response-body-released", stream.closed)
	vAssert("close-succeeds", c.Close() == nil)
	vQuiesce()
	vAssert("no-goroutine-left-behind", vGoroutines() <= base)
	vReach("end")
}

// c08Body: a JSON response body that fails after cut bytes.
type c08Body struct {
	data   []byte
	off    int
	cut    int
	err    error
	closed bool
}

func (b *c08Body) VerifReadAll() ([]byte, error) {
	if b.cut >= len(b.data) && b.err == io.EOF {
		return b.data, nil
	}
	if b.err == io.EOF {
		return b.data[:b.cut], nil
	}
	return b.data[:b.cut], b.err
}
func (b *c08Body) Read(p []byte) (int, error) {
	if b.off >= b.cut {
		return 0, b.err
	}
	n := copy(p, b.data[b.off:b.cut])
	b.off += n
	return n, nil
}
func (b *c08Body) Close() error { b.closed = true; return nil }

// H_C08_streamable_json_call: the JSON answer is cut at the start, in the middle or at its end.
func H_C08_streamable_json_call() {
	where := vChoice("cut", 3)
	reset := vChoice("reset", 2) == 1
	var body *c08Body
	net := &verifNet{}
	net.respond = func(s *verifSent) (*http.Response, error) {
		// the client's first request id is 1
		data := []byte(`{"jsonrpc":"2.0","id":1,"result":{"content":[{"type":"text","text":"yours"}]}}`)
		body = &c08Body{data: data, err: io.EOF}
		switch where {
		case 0:
			body.cut = 0
		case 1:
			body.cut = len(data) / 2
		default:
			body.cut = len(data)
		}
		if reset {
			body.err = errC08Reset
		}
		return &http.Response{StatusCode: 200, Status: "200 OK", Header: http.Header{"Content-Type": []string{"application/json"}}, Body: body}, nil
	}
	c, err := NewClient("http://h.example/mcp", Implementation{Name: "c", Version: "1"}, WithHTTPReqHandler(&verifReqHandler{net: net}), WithClientGetSSEEnabled(false))
	if err != nil {
		panic(err)
	}
	c.initialized = true
	res, cerr := c.CallTool(context.Background(), &CallToolRequest{Params: CallToolParams{Name: "t"}})
	if where == 2 && !reset {
		vAssert("complete-answer-is-returned", vAnd(cerr == nil, c08TextOf(res) == "yours"))
	} else {
		vAssert("cut-answer-is-an-error-never-a-partial-result", vAnd(cerr != nil, res == nil))
	}
	vAssert("response-body-released", body != nil && body.closed)
	vAssert("close-succeeds", c.Close() == nil)
	vReach("end")
}

// H_C08_legacy_call: a pending call on the legacy SSE client when the event stream breaks or the context ends.
func H_C08_legacy_call() {
	progress := vChoice("progress", 4)
	fault := vChoice("fault", 4)
	var stream *c08Stream
	var reqID interface{}
	net := &verifNet{}
	net.respond = func(s *verifSent) (*http.Response, error) {
		if s.method == "GET" {
			stream = newC08Stream(s.ctx)
			stream.ch <- []byte("event: endpoint\ndata: /message?sessionId=abc\n\n")
			return &http.Response{StatusCode: 200, Status: "200 OK", Header: http.Header{"Content-Type": []string{"text/event-stream"}}, Body: stream}, nil
		}
		doc, _ := verifParse(s.body)
		obj, _ := verifObj(doc)
		if id, has := obj["id"]; has {
			reqID = id
		}
		return verifResp(202, nil), nil
	}
	c, err := NewSSEClient("http://h.example/sse", Implementation{Name: "c", Version: "1"}, WithHTTPReqHandler(&verifReqHandler{net: net}))
	if err != nil {
		panic(err)
	}
	c.initialized = true
	t := c.transport.(*sseClientTransport)
	base := vGoroutines()
	ctx, cancel := context.WithCancel(context.Background())
	if fault == 3 {
		ctx, cancel = context.WithTimeout(context.Background(), 200*time.Millisecond)
	}
	defer cancel()
	out := &c08Outcome{done: make(chan struct{})}
	go func() {
		out.res, out.err = c.CallTool(ctx, &CallToolRequest{Params: CallToolParams{Name: "t"}})
		close(out.done)
	}()
	vQuiesce()
	vAssume(stream != nil && reqID != nil)
	c08Progress(func(b []byte) { stream.ch <- b }, progress, reqID, "event: message\n")
	vQuiesce()
	c08Fault(fault, stream, cancel)
	vAssert("call-returns-after-the-fault", out.wait())
	if !out.wait() {
		return
	}
	vAssert("no-answer-means-error-never-a-partial-result", vAnd(out.err != nil, out.res == nil))
	t.responsesMu.RLock()
	pending := len(t.responses)
	t.responsesMu.RUnlock()
	vAssert("nothing-left-pending", pending == 0)
	if fault <= 1 {
		// the connection is gone: a further call fails promptly instead of waiting for an answer that cannot come
		vQuiesce()
		out2 := &c08Outcome{done: make(chan struct{})}
		go func() {
			out2.res, out2.err = c.CallTool(context.Background(), &CallToolRequest{Params: CallToolParams{Name: "t"}})
			close(out2.done)
		}()
		vAssert("call-after-stream-end-returns", out2.wait())
		if out2.wait() {
			vAssert("call-after-stream-end-fails", out2.err != nil)
		}
	}
	vAssert("close-succeeds", c.Close() == nil)
	vQuiesce()
	vAssert("stream-released", stream.closed)
	vAssert("no-goroutine-left-behind", vGoroutines() <= base)
	vReach("end")
}

// ---- stdio client transport over in-memory pipes ----

type c08Pipe struct {
	closed bool
}

func (p *c08Pipe) Write(b []byte) (int, error) {
	if p.closed {
		return 0, io.ErrClosedPipe
	}
	return len(b), nil
}
func (p *c08Pipe) Close() error { p.closed = true; return nil }

func c08Stdio(timeout time.Duration) (*stdioClientTransport, *c08Stream) {
	t := newStdioClientTransport(StdioServerParameters{Command: "none"}, withStdioTransportTimeout(timeout))
	out := newC08Stream(context.Background())
	t.process = &exec.Cmd{}
	t.stdin = &c08Pipe{}
	t.stdout = out
	t.encoder = json.NewEncoder(t.stdin)
	go t.readLoop()
	return t, out
}

// c08StdioProc: the same with a child process the harness controls and the transport's own watcher.
func c08StdioProc(timeout time.Duration) (*stdioClientTransport, *c08Stream) {
	t := newStdioClientTransport(StdioServerParameters{Command: "none"}, withStdioTransportTimeout(timeout))
	out := newC08Stream(context.Background())
	t.process = vProcStart()
	t.stdin = &c08Pipe{}
	t.stdout = out
	t.encoder = json.NewEncoder(t.stdin)
	go t.readLoop()
	go t.processWatcher()
	return t, out
}

type c08Raw struct {
	raw  *json.RawMessage
	err  error
	done chan struct{}
}

func (o *c08Raw) wait() bool {
	select {
	case <-o.done:
		return true
	case <-time.After(3 * time.Second):
	}
	return false
}

// H_C08_stdio_call: a pending stdio call ends with an error when its context, the transport timeout or the
// process ends.
func H_C08_stdio_call() {
	fault := vChoice("fault", 4)
	code := 0
	if fault >= 2 {
		code = []int{0, 3}[vChoice("exitcode", 2)]
	}
	base := vGoroutines()
	// the transport's own timeout is the subject of fault 1 only; otherwise it is long (the default is 30 s)
	timeout := 30 * time.Second
	if fault == 1 {
		timeout = 300 * time.Millisecond
	}
	t, out := c08StdioProc(timeout)
	ctx, cancel := context.WithCancel(context.Background())
	defer cancel()
	o := &c08Raw{done: make(chan struct{})}
	go func() {
		o.raw, o.err = t.sendRequest(ctx, &JSONRPCRequest{JSONRPC: "2.0", ID: int64(1), Request: Request{Method: "tools/call"}, Params: map[string]interface{}{"name": "t"}})
		close(o.done)
	}()
	vQuiesce()
	switch fault {
	case 0:
		cancel()
	case 1:
		// nothing: the transport's own timeout passes
	case 2:
		// the process exits (cleanly or not): its stdout ends and the transport's watcher sees the exit
		close(out.ch)
		vProcExit(t.process, code)
	default:
		// a truncated line, then the process exits
		out.ch <- []byte("{\"jsonrpc\":\"2.0\",\"id\":1,\"resu")
		close(out.ch)
		vProcExit(t.process, code)
	}
	vAssert("call-returns-promptly-after-the-fault", o.wait())
	if !o.wait() {
		return
	}
	vAssert("no-answer-means-error-never-a-nil-result", vAnd(o.err != nil, o.raw == nil))
	t.pendingMutex.RLock()
	pending := len(t.pendingRequests)
	t.pendingMutex.RUnlock()
	vAssert("nothing-left-pending", pending == 0)
	if fault < 2 {
		vProcExit(t.process, 0)
	}
	vAssert("close-succeeds", t.close() == nil)
	vQuiesce()
	vAssert("pipes-closed", vAnd(out.closed, t.stdin.(*c08Pipe).closed))
	vAssert("no-goroutine-left-behind", vGoroutines() <= base)
	vReach("end")
}

// H_C08_stdio_close_while_pending: Close from another goroutine while a call is pending, every schedule.
func H_C08_stdio_close_while_pending() {
	t, _ := c08Stdio(300 * time.Millisecond)
	o := &c08Raw{done: make(chan struct{})}
	go func() {
		o.raw, o.err = t.sendRequest(context.Background(), &JSONRPCRequest{JSONRPC: "2.0", ID: int64(1), Request: Request{Method: "tools/call"}, Params: map[string]interface{}{"name": "t"}})
		close(o.done)
	}()
	vQuiesce()
	budget := 2
	if vTier() == 1 {
		budget = 3
	}
	vSched(true, budget)
	cerr := t.close()
	<-o.done
	vSched(false, 0)
	vAssert("close-succeeds", cerr == nil)
	vAssert("pending-call-ends-with-an-error-never-a-nil-result", vAnd(o.err != nil, o.raw == nil))
	t.pendingMutex.RLock()
	pending := len(t.pendingRequests)
	t.pendingMutex.RUnlock()
	vAssert("nothing-left-pending", pending == 0)
	vReach("end")
}

// ---- servers release what a vanished peer held ----

// H_C08_streamable_server_release: listening streams whose peers go away leave no goroutine and no table entry.
func H_C08_streamable_server_release() {
	vRandConcrete(true)
	srv := NewServer("srv", "1.0", WithPostSSEEnabled(false))
	a, b := c11Session(srv), c11Session(srv)
	vAssume(a != "" && b != "" && a != b)
	base := vGoroutines()
	sa, sb := c11Open(srv, a, nil), c11Open(srv, b, nil)
	vAssume(c11Wait(sa.flushed) && c11Wait(sb.flushed))
	how := vChoice("how", 2)
	if how == 0 {
		sa.cancel()
		sb.cancel()
	} else {
		sa.cancel()
		rec := newVerifRecorder()
		srv.httpHandler.ServeHTTP(rec, verifRequest("DELETE", "/mcp", nil, "Mcp-Session-Id", b))
	}
	vAssert("stream-handlers-return", vAnd(c11Wait(sa.done), c11Wait(sb.done)))
	vQuiesce()
	srv.httpHandler.getSSEConnectionsLock.RLock()
	left := len(srv.httpHandler.getSSEConnections)
	srv.httpHandler.getSSEConnectionsLock.RUnlock()
	vAssert("no-stream-entry-left", left == 0)
	vAssert("no-goroutine-left-behind", vGoroutines() <= base)
	vReach("end")
}

// H_C08_streamable_server_write_failure: the peer goes away while a server-issued request is written.
func H_C08_streamable_server_write_failure() { c11StreamWriteFailure() }

// H_C08_streamable_server_answer_write_failure: the peer of a POST goes away while the answer (JSON or SSE with
// in-call notifications) is written: the exchange still ends, later exchanges of the session are served, nothing
// is left behind.
func H_C08_streamable_server_answer_write_failure() {
	vRandConcrete(true)
	sse := vBool("sseAnswers")
	srv := NewServer("srv", "1.0", WithPostSSEEnabled(sse), WithGetSSEEnabled(false))
	sendErrs := 0
	srv.RegisterTool(NewTool("t"), func(ctx context.Context, r *CallToolRequest) (*CallToolResult, error) {
		if sender, ok := GetNotificationSender(ctx); ok {
			for i := 0; i < 2; i++ {
				if err := sender.SendCustomNotification("n/x", map[string]interface{}{"i": float64(i)}); err != nil {
					sendErrs++
				}
			}
		}
		return NewTextResult("done"), nil
	})
	a := c11Session(srv)
	vAssume(a != "")
	base := vGoroutines()
	rec := newVerifRecorder()
	rec.failFrom = 1 + vChoice("failAtWrite", 8)
	rec.failShort = vBool("shortWrite")
	done := make(chan struct{})
	go func() {
		srv.httpHandler.ServeHTTP(rec, verifRequest("POST", "/mcp", []byte(`{"jsonrpc":"2.0","id":7,"method":"tools/call","params":{"name":"t"}}`),
			"Accept", "application/json, text/event-stream", "Content-Type", "application/json", "Mcp-Session-Id", a))
		close(done)
	}()
	vAssert("exchange-with-failing-writer-ends", c11Wait(done))
	vQuiesce()
	rec2 := newVerifRecorder()
	srv.httpHandler.ServeHTTP(rec2, verifRequest("POST", "/mcp", []byte(`{"jsonrpc":"2.0","id":8,"method":"ping"}`),
		"Accept", "application/json, text/event-stream", "Content-Type", "application/json", "Mcp-Session-Id", a))
	frame, ok := c03Frame(rec2, sse)
	fm, _ := verifObj(frame)
	_, hasResult := fm["result"]
	vAssert("later-exchange-served", vAnd(rec2.code() == 200, vAnd(ok, vAnd(hasResult, fm["id"] == float64(8)))))
	srv.httpHandler.responseManager.mutex.RLock()
	pending := len(srv.httpHandler.responseManager.pendingRequests)
	srv.httpHandler.responseManager.mutex.RUnlock()
	vAssert("nothing-left-pending", pending == 0)
	vAssert("no-goroutine-left-behind", vGoroutines() <= base)
	vReach("end")
}

// H_C08_legacy_server_release: a legacy SSE session whose peer goes away.
func H_C08_legacy_server_release() {
	srv := NewSSEServer("srv", "1.0", WithSSESessionIDGenerator(&c08Gen{}))
	keep := vChoice("keepalive", 2) == 1
	if keep {
		srv.keepAlive = true
		srv.keepAliveInterval = 50 * time.Millisecond
	} else {
		srv.keepAlive = false
	}
	base := vGoroutines()
	rec := newVerifRecorder()
	ctx, cancel := context.WithCancel(context.Background())
	done := make(chan struct{})
	go func() {
		srv.ServeHTTP(rec, verifRequest("GET", "/sse", nil, "Accept", "text/event-stream").WithContext(ctx))
		close(done)
	}()
	vQuiesce()
	n := 0
	srv.sessions.Range(func(k, v interface{}) bool { n++; return true })
	vAssume(n == 1)
	cancel()
	vAssert("stream-handler-returns", c11Wait(done))
	vQuiesce()
	time.Sleep(120 * time.Millisecond)
	vQuiesce()
	n = 0
	srv.sessions.Range(func(k, v interface{}) bool { n++; return true })
	vAssert("session-removed", n == 0)
	vAssert("no-goroutine-left-behind", vGoroutines() <= base)
	vReach("end")
}

type c08Gen struct{}

func (g *c08Gen) GenerateSessionID(r *http.Request) string { return "s1" }

// H_C08_legacy_close_during_delivery: Close from another goroutine while the reader delivers the answer of a
// pending call: no panic in any goroutine, the call ends with its answer or an error, under every schedule
// with a bounded number of preemptions.
func H_C08_legacy_close_during_delivery() {
	var stream *c08Stream
	var reqID interface{}
	net := &verifNet{}
	net.respond = func(s *verifSent) (*http.Response, error) {
		if s.method == "GET" {
			stream = newC08Stream(s.ctx)
			stream.ch <- []byte("event: endpoint\ndata: /message?sessionId=abc\n\n")
			return &http.Response{StatusCode: 200, Status: "200 OK", Header: http.Header{"Content-Type": []string{"text/event-stream"}}, Body: stream}, nil
		}
		doc, _ := verifParse(s.body)
		obj, _ := verifObj(doc)
		if id, has := obj["id"]; has {
			reqID = id
		}
		return verifResp(202, nil), nil
	}
	c, err := NewSSEClient("http://h.example/sse", Implementation{Name: "c", Version: "1"}, WithHTTPReqHandler(&verifReqHandler{net: net}))
	if err != nil {
		panic(err)
	}
	c.initialized = true
	out := &c08Outcome{done: make(chan struct{})}
	go func() {
		out.res, out.err = c.CallTool(context.Background(), &CallToolRequest{Params: CallToolParams{Name: "t"}})
		close(out.done)
	}()
	vQuiesce()
	vAssume(stream != nil && reqID != nil)
	budget := 3
	if vTier() == 1 {
		budget = 4
	}
	vSched(true, budget)
	stream.ch <- []byte("event: message\ndata: " + string(c08Answer(reqID, "yours")) + "\n\n")
	cerr := c.Close()
	<-out.done
	vSched(false, 0)
	vAssert("close-succeeds", cerr == nil)
	vAssert("answer-or-error", vOr(out.err != nil, c08TextOf(out.res) == "yours"))
	vReach("end")
}
