//verif:pkg .
//verif:use fakes_client
//verif:use fakes_mcp
//verif:bound one adversarial frame - thorough: followed by a second one of the concrete kinds on the legacy stream - (an arbitrary JSON document of depth <= 2 that is not the pending call's own answer, truncated JSON, a line of 3 printable ASCII bytes starting with an upper-case letter, comments and blank lines, an event without data, empty data, an unexpected endpoint event, id/retry fields only, a well-formed response with an unknown id, with a string id, an error response with a null id; on the GET stream also a 70000-byte frame) placed before, inside or after the valid answer of call 1, followed by a well-formed call 2 and Close; plus the call's own id with an arbitrary result document (depth <= 3) for each of tools/call, tools/list, prompts/list, prompts/get, resources/list, resources/read; a frame bearing the call's own id that is no answer (server request with a colliding id, id-only object) before the real answer, for each of the six operations; Streamable client with JSON answers, with SSE answers (with and without a registered notification handler) and on its GET stream, legacy SSE client, stdio client transport
//verif:assume several adversarial frames in one exchange, frames split across reads at arbitrary byte offsets and CPU-time measurement are outside the bound; a goroutine that re-reads a sticky decoder error three times is taken to spin forever
package mcp

import (
	"context"
	"encoding/json"
	"net/http"
	"os/exec"
	"strconv"
	"strings"
	"time"
)

func c07TextOf(res *CallToolResult) string {
	if res == nil || len(res.Content) != 1 {
		return ""
	}
	if tc, ok := res.Content[0].(TextContent); ok {
		return tc.Text
	}
	return ""
}

func c07Answer(id interface{}, text string) []byte {
	b, _ := json.Marshal(map[string]interface{}{"jsonrpc": "2.0", "id": id,
		"result": map[string]interface{}{"content": []interface{}{map[string]interface{}{"type": "text", "text": text}}}})
	return b
}

// c07Foreign: an arbitrary JSON document that is not an answer to call callID.
func c07Foreign(callID int64) []byte {
	doc := vJSON("frame", 2)
	v, ok := verifParse(doc)
	vAssume(ok)
	if o, isObj := verifObj(v); isObj {
		if id, has := o["id"]; has {
			switch x := id.(type) {
			case float64:
				vAssume(x != float64(callID))
			case string:
				vAssume(x != strconv.FormatInt(callID, 10))
			}
		}
	}
	return doc
}

func c07Garbage() string {
	b := make([]byte, 3)
	for i := range b {
		b[i] = vUint8("garbage")
		vAssume(b[i] >= 0x20 && b[i] < 0x7f)
	}
	// the first byte cannot start a JSON value (so the line is certainly not JSON)
	vAssume(b[0] >= 'A' && b[0] <= 'Z')
	return string(b)
}

const c07Kinds = 11

// c07BadSSE: adversarial content for an SSE stream (complete lines).
func c07BadSSE(kind int, callID int64) string { return c07BadSSEp(kind, callID, "") }

// c07BadSSEp: prefix is "event: message\n" on the legacy stream (whose reader dispatches typed events only).
func c07BadSSEp(kind int, callID int64, prefix string) string {
	switch kind {
	case 0:
		return prefix + "data: " + string(c07Foreign(callID)) + "\n\n"
	case 1:
		return prefix + "data: " + string(vJSONInvalid()) + "\n\n"
	case 2:
		return c07Garbage() + "\n"
	case 3:
		return ": keep-alive\n\n\n\n"
	case 4:
		return "event: message\n\n"
	case 5:
		return prefix + "data:\n\n"
	case 6:
		return "event: endpoint\ndata: /message?sessionId=zzz\n\n"
	case 7:
		return "id: 99\nretry: 5\n\n"
	case 8: // a well-formed response nobody is waiting for
		return "event: message\ndata: {\"jsonrpc\":\"2.0\",\"id\":424242,\"result\":{}}\n\n"
	case 9: // a response whose id has the wrong type
		return "event: message\ndata: {\"jsonrpc\":\"2.0\",\"id\":\"zz\",\"result\":{}}\n\n"
	}
	return "event: message\ndata: {\"jsonrpc\":\"2.0\",\"id\":null,\"error\":{\"code\":-32700,\"message\":\"Parse error\"}}\n\n"
}

// c07Bads: one adversarial frame (quick) or two consecutive ones of independently chosen kinds (thorough).
func c07Bads(kind int, callID int64, prefix string) string {
	out := c07BadSSEp(kind, callID, prefix)
	if vTier() == 1 {
		// the second frame is one of the concrete kinds (two lazy JSON documents per exchange make the path
		// count explode: 34000 paths / 18 min for the legacy client alone)
		out += c07BadSSEp(1+vChoice("bad2", c07Kinds-1), callID, prefix)
	}
	return out
}

// c07Place puts bad before (0), inside (1) or after (2) the answer event.
func c07Place(pos int, bad string, answer []byte, eventLine string) string {
	ev := eventLine + "data: " + string(answer) + "\n\n"
	switch pos {
	case 0:
		return bad + ev
	case 1:
		return "id: 7\n" + bad + ev
	}
	return ev + bad
}

// ---- Streamable client: answers to POST ----

func c07StreamableClient(net *verifNet) *Client {
	c, err := NewClient("http://h.example/mcp", Implementation{Name: "c", Version: "1"}, WithHTTPReqHandler(&verifReqHandler{net: net}), WithClientGetSSEEnabled(false))
	if err != nil {
		panic(err)
	}
	c.initialized = true
	return c
}

func c07ReqID(s *verifSent) interface{} {
	doc, _ := verifParse(s.body)
	obj, _ := verifObj(doc)
	return obj["id"]
}

// H_C07_streamable_sse_answer: an adversarial frame around the SSE answer of call 1.
func H_C07_streamable_sse_answer() {
	kind := vChoice("bad", c07Kinds)
	pos := vChoice("pos", 3)
	withHandler := vChoice("handler", 2) == 1
	net := &verifNet{}
	calls := 0
	net.respond = func(s *verifSent) (*http.Response, error) {
		calls++
		id := c07ReqID(s)
		if calls == 1 {
			body := c07Place(pos, c07BadSSE(kind, 1), c07Answer(id, "yours"), "")
			return verifResp(200, []byte(body), "Content-Type", "text/event-stream"), nil
		}
		return verifResp(200, []byte("data: "+string(c07Answer(id, "yours2"))+"\n\n"), "Content-Type", "text/event-stream"), nil
	}
	c := c07StreamableClient(net)
	notes := 0
	if withHandler {
		c.RegisterNotificationHandler("n/x", func(n *JSONRPCNotification) error { notes++; return nil })
	}
	ctx, cancel := context.WithTimeout(context.Background(), 400*time.Millisecond)
	res, err := c.CallTool(ctx, &CallToolRequest{Params: CallToolParams{Name: "t"}})
	cancel()
	vAssert("affected-call-errs-or-gets-its-own-answer", vOr(err != nil, c07TextOf(res) == "yours"))
	ctx2, cancel2 := context.WithTimeout(context.Background(), 400*time.Millisecond)
	res2, err2 := c.CallTool(ctx2, &CallToolRequest{Params: CallToolParams{Name: "t"}})
	cancel2()
	vAssert("later-call-completes", vAnd(err2 == nil, c07TextOf(res2) == "yours2"))
	vAssert("close-succeeds", c.Close() == nil)
	vReach("end")
}

// c07Op runs one of the six result-bearing operations; ok = it returned a value without error.
func c07Op(c *Client, ctx context.Context, op int) (bool, error) {
	switch op {
	case 0:
		r, err := c.CallTool(ctx, &CallToolRequest{Params: CallToolParams{Name: "t"}})
		return r != nil, err
	case 1:
		r, err := c.ListTools(ctx, &ListToolsRequest{})
		return r != nil, err
	case 2:
		r, err := c.ListPrompts(ctx, &ListPromptsRequest{})
		return r != nil, err
	case 3:
		r, err := c.GetPrompt(ctx, &GetPromptRequest{})
		return r != nil, err
	case 4:
		r, err := c.ListResources(ctx, &ListResourcesRequest{})
		return r != nil, err
	}
	r, err := c.ReadResource(ctx, &ReadResourceRequest{})
	return r != nil, err
}

// H_C07_streamable_own_id_any_result: the answer carries the call's id and an arbitrary result document,
// for each of the six operations that decode a result.
func H_C07_streamable_own_id_any_result() {
	sse := vChoice("sse", 2) == 1
	op := vChoice("op", 6)
	// depth 3 reaches the content items of a tool result and the messages of a prompt; the list results
	// and resource contents are explored to depth 2
	depth := 2
	if op == 0 || op == 3 {
		depth = 3
	}
	result := vJSON("result", depth)
	net := &verifNet{}
	calls := 0
	net.respond = func(s *verifSent) (*http.Response, error) {
		calls++
		id := c07ReqID(s)
		var body []byte
		if calls == 1 {
			body, _ = json.Marshal(map[string]interface{}{"jsonrpc": "2.0", "id": id, "result": json.RawMessage(result)})
		} else {
			body = c07Answer(id, "yours2")
		}
		if sse {
			return verifResp(200, []byte("data: "+string(body)+"\n\n"), "Content-Type", "text/event-stream"), nil
		}
		return verifResp(200, body, "Content-Type", "application/json"), nil
	}
	c := c07StreamableClient(net)
	ctx, cancel := context.WithTimeout(context.Background(), 400*time.Millisecond)
	got, err := c07Op(c, ctx, op)
	cancel()
	vAssert("error-or-a-result", vOr(err != nil, got))
	rv, _ := verifParse(result)
	if _, isObj := verifObj(rv); !isObj && op == 0 {
		vAssert("non-object-result-is-an-error", err != nil)
	}
	ctx2, cancel2 := context.WithTimeout(context.Background(), 400*time.Millisecond)
	res2, err2 := c.CallTool(ctx2, &CallToolRequest{Params: CallToolParams{Name: "t"}})
	cancel2()
	vAssert("later-call-completes", vAnd(err2 == nil, c07TextOf(res2) == "yours2"))
	vAssert("close-succeeds", c.Close() == nil)
	vReach("end")
}

// H_C07_streamable_json_answer: the JSON body of the answer is adversarial.
func H_C07_streamable_json_answer() {
	kind := vChoice("bad", 4)
	net := &verifNet{}
	calls := 0
	isObject := false
	net.respond = func(s *verifSent) (*http.Response, error) {
		calls++
		id := c07ReqID(s)
		if calls > 1 {
			return verifResp(200, c07Answer(id, "yours2"), "Content-Type", "application/json"), nil
		}
		var body []byte
		switch kind {
		case 0:
			body = vJSON("frame", 2)
			v, _ := verifParse(body)
			_, isObject = verifObj(v)
		case 1:
			body = vJSONInvalid()
		case 2:
			body = []byte(c07Garbage())
		}
		return verifResp(200, body, "Content-Type", "application/json"), nil
	}
	c := c07StreamableClient(net)
	ctx, cancel := context.WithTimeout(context.Background(), 400*time.Millisecond)
	res, err := c.CallTool(ctx, &CallToolRequest{Params: CallToolParams{Name: "t"}})
	cancel()
	vAssert("error-or-a-result", vOr(err != nil, res != nil))
	if !isObject {
		vAssert("non-object-body-is-an-error", err != nil)
	}
	ctx2, cancel2 := context.WithTimeout(context.Background(), 400*time.Millisecond)
	res2, err2 := c.CallTool(ctx2, &CallToolRequest{Params: CallToolParams{Name: "t"}})
	cancel2()
	vAssert("later-call-completes", vAnd(err2 == nil, c07TextOf(res2) == "yours2"))
	vAssert("close-succeeds", c.Close() == nil)
	vReach("end")
}

// H_C07_streamable_get_stream: an adversarial frame on the listening stream, then a well-formed notification.
func H_C07_streamable_get_stream() {
	kind := vChoice("bad", c07Kinds+1)
	stream := newVerifStream()
	net := &verifNet{}
	net.respond = func(s *verifSent) (*http.Response, error) {
		if s.method == "GET" {
			return &http.Response{StatusCode: 200, Status: "200 OK", Header: http.Header{"Content-Type": []string{"text/event-stream"}}, Body: stream}, nil
		}
		return verifResp(202, nil), nil
	}
	c, err := NewClient("http://h.example/mcp", Implementation{Name: "c", Version: "1"}, WithHTTPReqHandler(&verifReqHandler{net: net}))
	if err != nil {
		panic(err)
	}
	c.initialized = true
	t := c.transport.(*streamableHTTPClientTransport)
	t.sessionID = "s1"
	got := make(chan string, 4)
	c.RegisterNotificationHandler("n/ok", func(n *JSONRPCNotification) error {
		m, _ := n.Params.AdditionalFields["m"].(string)
		got <- m
		return nil
	})
	t.establishGetSSE(context.Background())
	vQuiesce()
	if kind == c07Kinds {
		stream.push([]byte("data: {\"jsonrpc\":\"2.0\",\"method\":\"n/big\",\"params\":{\"x\":\"" + strings.Repeat("a", 70000) + "\"}}\n\n"))
	} else {
		stream.push([]byte(c07BadSSE(kind, 1)))
	}
	stream.push([]byte("data: {\"jsonrpc\":\"2.0\",\"method\":\"n/ok\",\"params\":{\"m\":\"after\"}}\n\n"))
	seen := ""
	select {
	case seen = <-got:
	case <-time.After(300 * time.Millisecond):
	}
	vAssert("later-frame-still-processed", seen == "after")
	vAssert("close-succeeds", c.Close() == nil)
	stream.end()
	vReach("end")
}

// ---- legacy SSE client ----

func H_C07_legacy_client() {
	kind := vChoice("bad", c07Kinds)
	pos := vChoice("pos", 3)
	// the adversarial data frames come both as typed events (which the legacy reader dispatches to the message
	// handler) and as data-only events without an event field (which it must skip without side effects)
	badPrefix := "event: message\n"
	if kind <= 1 || kind == 5 {
		if vChoice("typed", 2) == 0 {
			badPrefix = ""
		}
	}
	stream := newVerifStream()
	net := &verifNet{}
	posts := 0
	net.respond = func(s *verifSent) (*http.Response, error) {
		if s.method == "GET" {
			stream.push([]byte("event: endpoint\ndata: /message?sessionId=abc\n\n"))
			return &http.Response{StatusCode: 200, Status: "200 OK", Header: http.Header{"Content-Type": []string{"text/event-stream"}}, Body: stream}, nil
		}
		id := c07ReqID(s)
		if id == nil {
			return verifResp(202, nil), nil
		}
		posts++
		if posts == 1 {
			stream.push([]byte(c07Place(pos, c07Bads(kind, 1, badPrefix), c07Answer(id, "yours"), "event: message\n")))
		} else {
			stream.push([]byte("event: message\ndata: " + string(c07Answer(id, "yours2")) + "\n\n"))
		}
		return verifResp(202, nil), nil
	}
	c, err := NewSSEClient("http://h.example/sse", Implementation{Name: "c", Version: "1"}, WithHTTPReqHandler(&verifReqHandler{net: net}))
	if err != nil {
		panic(err)
	}
	c.initialized = true
	ctx, cancel := context.WithTimeout(context.Background(), 400*time.Millisecond)
	res, cerr := c.CallTool(ctx, &CallToolRequest{Params: CallToolParams{Name: "t"}})
	cancel()
	vAssert("affected-call-errs-or-gets-its-own-answer", vOr(cerr != nil, c07TextOf(res) == "yours"))
	vQuiesce()
	ctx2, cancel2 := context.WithTimeout(context.Background(), 400*time.Millisecond)
	res2, err2 := c.CallTool(ctx2, &CallToolRequest{Params: CallToolParams{Name: "t"}})
	cancel2()
	vAssert("later-call-completes", vAnd(err2 == nil, c07TextOf(res2) == "yours2"))
	vAssert("close-succeeds", c.Close() == nil)
	vReach("end")
}

// ---- stdio client transport ----

type c07Pipe struct{ onLine func(b []byte) }

func (p *c07Pipe) Write(b []byte) (int, error) { p.onLine(b); return len(b), nil }
func (p *c07Pipe) Close() error               { return nil }

func H_C07_stdio_client() {
	kind := vChoice("bad", 5)
	pos := vChoice("pos", 2)
	out := newVerifStream()
	t := newStdioClientTransport(StdioServerParameters{Command: "none"}, withStdioTransportTimeout(400*time.Millisecond))
	in := &c07Pipe{}
	lines := 0
	in.onLine = func(b []byte) {
		doc, _ := verifParse(b)
		obj, _ := verifObj(doc)
		id, hasID := obj["id"]
		if !hasID {
			return
		}
		lines++
		if lines > 1 {
			out.push(append(c07Answer(id, "yours2"), '\n'))
			return
		}
		var bad []byte
		switch kind {
		case 0:
			bad = append(c07Foreign(1), '\n')
		case 1:
			bad = append(vJSONInvalid(), '\n')
		case 2:
			bad = []byte(c07Garbage() + "\n")
		case 3:
			bad = []byte("\n\n")
		default:
			bad = []byte("[]\n")
		}
		if pos == 0 {
			out.push(bad)
			out.push(append(c07Answer(id, "yours"), '\n'))
		} else {
			out.push(append(c07Answer(id, "yours"), '\n'))
			out.push(bad)
		}
	}
	t.process = &exec.Cmd{}
	t.stdin = in
	t.stdout = out
	t.encoder = json.NewEncoder(in)
	go t.readLoop()
	raw, err := t.sendRequest(context.Background(), &JSONRPCRequest{JSONRPC: "2.0", ID: int64(1), Request: Request{Method: "tools/call"},
		Params: map[string]interface{}{"name": "t"}})
	if err == nil && raw != nil {
		res, perr := parseCallToolResult(raw)
		vAssert("affected-call-errs-or-gets-its-own-answer", vOr(perr != nil, c07TextOf(res) == "yours"))
	}
	vQuiesce()
	raw2, err2 := t.sendRequest(context.Background(), &JSONRPCRequest{JSONRPC: "2.0", ID: int64(2), Request: Request{Method: "tools/call"},
		Params: map[string]interface{}{"name": "t"}})
	vAssert("later-call-completes", vAnd(err2 == nil, raw2 != nil))
	if err2 == nil && raw2 != nil {
		res2, perr2 := parseCallToolResult(raw2)
		vAssert("later-call-result", vAnd(perr2 == nil, c07TextOf(res2) == "yours2"))
	}
	t.closed.Store(true)
	out.end()
	vReach("end")
}

// c07Real: a well-formed result for operation op carrying the marker "real", and a probe that recognises it.
func c07Real(op int) string {
	switch op {
	case 0:
		return `{"content":[{"type":"text","text":"real"}]}`
	case 1:
		return `{"tools":[{"name":"real","inputSchema":{"type":"object"}}]}`
	case 2:
		return `{"prompts":[{"name":"real"}]}`
	case 3:
		return `{"description":"real","messages":[]}`
	case 4:
		return `{"resources":[{"uri":"res://real","name":"real"}]}`
	}
	return `{"contents":[{"uri":"res://real","text":"real"}]}`
}

func c07OpMarker(c *Client, ctx context.Context, op int) (string, error) {
	switch op {
	case 0:
		r, err := c.CallTool(ctx, &CallToolRequest{Params: CallToolParams{Name: "t"}})
		return c07TextOf(r), err
	case 1:
		r, err := c.ListTools(ctx, &ListToolsRequest{})
		if err == nil && r != nil && len(r.Tools) == 1 {
			return r.Tools[0].Name, nil
		}
		return "", err
	case 2:
		r, err := c.ListPrompts(ctx, &ListPromptsRequest{})
		if err == nil && r != nil && len(r.Prompts) == 1 {
			return r.Prompts[0].Name, nil
		}
		return "", err
	case 3:
		r, err := c.GetPrompt(ctx, &GetPromptRequest{})
		if err == nil && r != nil {
			return r.Description, nil
		}
		return "", err
	case 4:
		r, err := c.ListResources(ctx, &ListResourcesRequest{})
		if err == nil && r != nil && len(r.Resources) == 1 {
			return r.Resources[0].Name, nil
		}
		return "", err
	}
	r, err := c.ReadResource(ctx, &ReadResourceRequest{})
	if err == nil && r != nil && len(r.Contents) == 1 {
		if tc, ok := r.Contents[0].(TextResourceContents); ok {
			return tc.Text, nil
		}
	}
	return "", err
}

// H_C07_streamable_own_id_not_an_answer: before the real answer the stream carries a frame that bears the call's
// own id but is no answer (a server-issued request with a colliding id, or an object with the id only). The
// call returns an error or the real answer - never an empty success.
func H_C07_streamable_own_id_not_an_answer() {
	op := vChoice("op", 6)
	shape := vChoice("shape", 3)
	withHandler := vChoice("handler", 2) == 1
	net := &verifNet{}
	net.respond = func(s *verifSent) (*http.Response, error) {
		id := c07ReqID(s)
		var first map[string]interface{}
		switch shape {
		case 0:
			first = map[string]interface{}{"jsonrpc": "2.0", "id": id, "method": "ping"}
		case 1:
			first = map[string]interface{}{"jsonrpc": "2.0", "id": id}
		default:
			first = map[string]interface{}{"jsonrpc": "2.0", "id": id, "method": "roots/list", "params": map[string]interface{}{}}
		}
		fb, _ := json.Marshal(first)
		real, _ := json.Marshal(map[string]interface{}{"jsonrpc": "2.0", "id": id, "result": json.RawMessage(c07Real(op))})
		return verifResp(200, []byte("data: "+string(fb)+"\n\ndata: "+string(real)+"\n\n"), "Content-Type", "text/event-stream"), nil
	}
	c := c07StreamableClient(net)
	if withHandler {
		c.RegisterNotificationHandler("n/x", func(n *JSONRPCNotification) error { return nil })
	}
	ctx, cancel := context.WithTimeout(context.Background(), 400*time.Millisecond)
	marker, err := c07OpMarker(c, ctx, op)
	cancel()
	vAssert("error-or-the-real-answer-never-an-empty-success", vOr(err != nil, marker == "real"))
	vAssert("close-succeeds", c.Close() == nil)
	vReach("end")
}
