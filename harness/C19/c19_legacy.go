//verif:pkg .
//verif:bound legacy SSE client: connect GET, request, notification and answer to a server-issued request x {0..2 static headers (one of them with two values), custom path or none, before-request function absent / present / failing}
package mcp

import (
	"context"
	"encoding/json"
	"errors"
	"net/http"
	"strings"
	"time"
)

func c19LegacySetup(e *c19Env) *verifStream {
	stream := newVerifStream()
	e.net = &verifNet{}
	e.net.respond = func(s *verifSent) (*http.Response, error) {
		switch s.method {
		case "GET":
			stream.push([]byte("event: endpoint\ndata: /message?sessionId=abc\n\n"))
			return &http.Response{StatusCode: 200, Status: "200 OK", Header: http.Header{"Content-Type": []string{"text/event-stream"}}, Body: stream}, nil
		case "POST":
			doc, _ := verifParse(s.body)
			obj, _ := verifObj(doc)
			method, _ := obj["method"].(string)
			id, hasID := obj["id"]
			if method != "" && hasID {
				var result interface{} = map[string]interface{}{"content": []interface{}{map[string]interface{}{"type": "text", "text": "x"}}}
				if method == "initialize" {
					result = map[string]interface{}{"protocolVersion": "2024-11-05", "serverInfo": map[string]interface{}{"name": "s", "version": "1"}, "capabilities": map[string]interface{}{}}
				}
				b, _ := json.Marshal(map[string]interface{}{"jsonrpc": "2.0", "id": id, "result": result})
				stream.push([]byte("event: message\ndata: " + string(b) + "\n\n"))
			}
			return verifResp(202, nil), nil
		}
		return verifResp(405, nil), nil
	}
	var opts []ClientOption
	h := http.Header{}
	if e.hdrA {
		h.Add("X-A", "va") // a header with two values: both must reach the wire
		h.Add("X-A", "va2")
	}
	if e.hdrB {
		h.Set("X-B", "vb")
	}
	if e.hdrA || e.hdrB {
		opts = append(opts, WithHTTPHeaders(h))
	}
	if e.customPath {
		opts = append(opts, WithClientPath("/custom"))
	}
	opts = append(opts, WithHTTPReqHandler(&verifReqHandler{net: e.net}))
	if e.before > 0 {
		opts = append(opts, WithHTTPBeforeRequest(func(ctx context.Context, r *http.Request) error {
			e.beforeRuns++
			e.beforeTok = append(e.beforeTok, ctx.Value(verifCtxKey{}))
			if e.before == 2 || (e.before == 3 && e.armed) {
				return errC19Before
			}
			return nil
		}))
	}
	c, err := NewSSEClient("http://h.example/sse", Implementation{Name: "c", Version: "1"}, opts...)
	if err != nil {
		panic(err)
	}
	c.transport.(*sseClientTransport).httpClient = &http.Client{Transport: &verifRoundTripper{net: e.net}}
	e.client = c
	return stream
}

func c19LegacyCheck(e *c19Env, s *verifSent, connect bool) {
	vAssert("through-configured-handler", s.viaHandler)
	if connect {
		if e.customPath {
			vAssert("connect-custom-path", s.path == "/custom")
		} else {
			vAssert("connect-configured-path", s.path == "/sse")
		}
	} else {
		vAssert("endpoint-from-server", vAnd(s.path == "/message", strings.Contains(s.url, "sessionId=abc")))
	}
	if e.hdrA {
		av := s.header.Values("X-A")
		vAssert("static-header-A-all-values", vAnd(len(av) == 2, len(av) == 2 && av[0] == "va" && av[1] == "va2"))
	}
	if e.hdrB {
		vAssert("static-header-B", s.header.Get("X-B") == "vb")
	}
}

func H_C19_legacy() {
	e := &c19Env{}
	e.hdrA = vBool("hdrA")
	e.hdrB = vBool("hdrB")
	e.customPath = vBool("customPath")
	e.before = vChoice("before", 4)
	op := vChoice("op", 4) // 0 handshake only, 1 request, 2 notification, 3 answer to a server-issued request
	stream := c19LegacySetup(e)
	hctx := context.WithValue(context.Background(), verifCtxKey{}, "handshake")
	_, err := e.client.Initialize(hctx, &InitializeRequest{})
	if e.before == 2 {
		vAssert("handshake-fails-with-before-error", vAnd(err != nil, errors.Is(err, errC19Before)))
		vAssert("nothing-sent-when-before-fails", len(e.net.sent) == 0)
		vReach("before-fails")
		return
	}
	vAssert("handshake-ok", err == nil)
	vAssert("handshake-three-requests", len(e.net.sent) == 3)
	if len(e.net.sent) != 3 {
		return
	}
	c19LegacyCheck(e, e.net.sent[0], true)
	c19LegacyCheck(e, e.net.sent[1], false)
	c19LegacyCheck(e, e.net.sent[2], false)
	if e.before == 1 || e.before == 3 {
		vAssert("before-once-per-request", e.beforeRuns == 3)
	}
	n0, b0 := len(e.net.sent), e.beforeRuns
	if e.before == 3 {
		// from now on the before-request function refuses: the operation fails and nothing more is sent
		e.armed = true
		octx := context.WithValue(context.Background(), verifCtxKey{}, "operation")
		switch op {
		case 0:
			vReach("handshake-only")
			return
		case 1:
			_, err := e.client.CallTool(octx, &CallToolRequest{Params: CallToolParams{Name: "t"}})
			vAssert("refused-request-fails", vAnd(err != nil, errors.Is(err, errC19Before)))
		case 2:
			err := e.client.SendRootsListChangedNotification(octx)
			vAssert("refused-notification-fails", vAnd(err != nil, errors.Is(err, errC19Before)))
		default:
			stream.push([]byte("event: message\ndata: {\"jsonrpc\":\"2.0\",\"id\":9,\"method\":\"roots/list\"}\n\n"))
			vQuiesce()
			time.Sleep(100 * time.Millisecond)
			vQuiesce()
		}
		vAssert("nothing-sent-when-before-fails", len(e.net.sent) == n0)
		vAssert("before-ran-once-for-the-refused-request", e.beforeRuns == b0+1)
		vReach("refused")
		return
	}
	octx := context.WithValue(context.Background(), verifCtxKey{}, "operation")
	switch op {
	case 0:
		vReach("handshake-only")
		return
	case 1:
		_, err := e.client.CallTool(octx, &CallToolRequest{Params: CallToolParams{Name: "t"}})
		vAssert("request-ok", err == nil)
	case 2:
		vAssert("notification-ok", e.client.SendRootsListChangedNotification(octx) == nil)
	default:
		done := make(chan struct{})
		respond := e.net.respond
		e.net.respond = func(s *verifSent) (*http.Response, error) {
			r, err := respond(s)
			close(done)
			return r, err
		}
		stream.push([]byte("event: message\ndata: {\"jsonrpc\":\"2.0\",\"id\":9,\"method\":\"roots/list\"}\n\n"))
		select {
		case <-done:
		case <-time.After(500 * time.Millisecond):
		}
	}
	vAssert("one-request-sent", len(e.net.sent) == n0+1)
	if len(e.net.sent) == n0+1 {
		c19LegacyCheck(e, e.net.sent[n0], false)
		if e.before == 1 {
			vAssert("before-once", e.beforeRuns == b0+1)
			if e.beforeRuns == b0+1 && op != 3 {
				vAssert("before-sees-operation-context", e.beforeTok[b0] == "operation")
			}
		}
	}
	vReach("end")
}
