//verif:pkg .
//verif:use fakes_mcp
//verif:use fakes_client
//verif:bound Streamable client: every request-building path (request, notification, handshake, listening-stream GET, answer to a server-issued request, session DELETE) x {0..2 static headers (one of them with two values), custom path or none, before-request function absent / present / failing, session id issued or not}; one operation per path after a scripted handshake
package mcp

import (
	"context"
	"errors"
	"net/http"
	"strings"
)

type c19Env struct {
	net        *verifNet
	client     *Client
	hdrA, hdrB bool
	customPath bool
	before     int // 0 none, 1 passes, 2 fails
	beforeRuns int
	armed      bool // before == 3: the before-request function fails from now on
	armPostOnly bool
	beforeTok  []interface{}
	session    string
	sseBody    []byte
}

var errC19Before = errors.New("before-request says no")

func c19Setup(e *c19Env) {
	e.net = &verifNet{}
	e.net.respond = func(s *verifSent) (*http.Response, error) {
		switch s.method {
		case "POST":
			doc, _ := verifParse(s.body)
			obj, _ := verifObj(doc)
			method, _ := obj["method"].(string)
			_, hasID := obj["id"]
			switch {
			case method == "initialize":
				return verifResp(200, []byte(`{"jsonrpc":"2.0","id":1,"result":{"protocolVersion":"2025-03-26","serverInfo":{"name":"s","version":"1"},"capabilities":{}}}`),
					"Content-Type", "application/json", "Mcp-Session-Id", e.session), nil
			case method != "" && !hasID:
				return verifResp(202, nil), nil
			case method == "":
				return verifResp(202, nil), nil // answer to a server request
			}
			return verifResp(200, []byte(`{"jsonrpc":"2.0","id":2,"result":{"content":[{"type":"text","text":"x"}]}}`), "Content-Type", "application/json"), nil
		case "GET":
			return verifResp(200, e.sseBody, "Content-Type", "text/event-stream"), nil
		case "DELETE":
			return verifResp(200, nil), nil
		}
		return verifResp(405, nil), nil
	}
	var opts []ClientOption
	h := http.Header{}
	if e.hdrA {
		h.Add("X-A", "va") // a header with two values: both must reach the wire
		h.Add("X-A", "va2")
	}
	if e.hdrB {
		h.Set("X-B", "vb")
	}
	if e.hdrA || e.hdrB {
		opts = append(opts, WithHTTPHeaders(h))
	}
	if e.customPath {
		opts = append(opts, WithClientPath("/custom"))
	}
	opts = append(opts, WithHTTPReqHandler(&verifReqHandler{net: e.net}))
	if e.before > 0 {
		opts = append(opts, WithHTTPBeforeRequest(func(ctx context.Context, r *http.Request) error {
			e.beforeRuns++
			e.beforeTok = append(e.beforeTok, ctx.Value(verifCtxKey{}))
			if e.before == 2 || (e.before == 3 && e.armed && (!e.armPostOnly || r.Method == "POST")) {
				return errC19Before
			}
			return nil
		}))
	}
	opts = append(opts, WithClientGetSSEEnabled(false))
	c, err := NewClient("http://h.example/mcp", Implementation{Name: "c", Version: "1"}, opts...)
	if err != nil {
		panic(err)
	}
	c.transport.(*streamableHTTPClientTransport).httpClient = &http.Client{Transport: &verifRoundTripper{net: e.net}}
	e.client = c
}

// c19CheckSent: one recorded request satisfies the customisation contract.
func c19CheckSent(e *c19Env, s *verifSent, wantSession bool) {
	vAssert("through-configured-handler", s.viaHandler)
	if e.customPath {
		vAssert("custom-path", s.path == "/custom")
	} else {
		vAssert("configured-url-path", s.path == "/mcp")
	}
	vAssert("configured-host", strings.HasPrefix(s.url, "http://h.example/"))
	if e.hdrA {
		av := s.header.Values("X-A")
		vAssert("static-header-A-all-values", vAnd(len(av) == 2, len(av) == 2 && av[0] == "va" && av[1] == "va2"))
	}
	if e.hdrB {
		vAssert("static-header-B", s.header.Get("X-B") == "vb")
	}
	if wantSession {
		vAssert("session-id-sent", s.header.Get("Mcp-Session-Id") == e.session)
	}
}

func c19Config(e *c19Env) {
	e.hdrA = vBool("hdrA")
	e.hdrB = vBool("hdrB")
	e.customPath = vBool("customPath")
	e.before = vChoice("before", 4) // 0 none, 1 passes, 2 always fails, 3 passes during the handshake and fails afterwards
	if vBool("sessionIssued") {
		e.session = "sess-1"
	}
}

func H_C19_streamable() {
	e := &c19Env{}
	c19Config(e)
	op := vChoice("op", 5) // 0 handshake only, 1 request, 2 notification, 3 terminate, 4 listening GET + answer to server request
	c19Setup(e)
	hctx := context.WithValue(context.Background(), verifCtxKey{}, "handshake")
	_, err := e.client.Initialize(hctx, &InitializeRequest{})
	if e.before == 2 {
		vAssert("handshake-fails-with-before-error", vAnd(err != nil, errors.Is(err, errC19Before)))
		vAssert("nothing-sent-when-before-fails", len(e.net.sent) == 0)
		vReach("before-fails")
		return
	}
	vAssert("handshake-ok", err == nil)
	vAssert("handshake-two-requests", len(e.net.sent) == 2)
	if len(e.net.sent) != 2 {
		return
	}
	c19CheckSent(e, e.net.sent[0], false)
	c19CheckSent(e, e.net.sent[1], e.session != "")
	if e.before == 1 || e.before == 3 {
		vAssert("before-once-per-request", e.beforeRuns == 2)
		vAssert("before-sees-handshake-context", vAnd(e.beforeTok[0] == "handshake", e.beforeTok[1] == "handshake"))
	}
	n0, b0 := len(e.net.sent), e.beforeRuns
	if e.before == 3 {
		// from now on the before-request function refuses: the operation fails and nothing more is sent
		e.armed = true
		octx := context.WithValue(context.Background(), verifCtxKey{}, "operation")
		switch op {
		case 0:
			vReach("handshake-only")
			return
		case 1:
			_, err := e.client.CallTool(octx, &CallToolRequest{Params: CallToolParams{Name: "t"}})
			vAssert("refused-request-fails", vAnd(err != nil, errors.Is(err, errC19Before)))
		case 2:
			err := e.client.SendRootsListChangedNotification(octx)
			vAssert("refused-notification-fails", vAnd(err != nil, errors.Is(err, errC19Before)))
		case 3:
			if e.session == "" {
				vReach("terminate-no-session")
				return
			}
			vAssert("refused-terminate-fails", e.client.TerminateSession(octx) != nil)
		default:
			if e.session == "" {
				vReach("no-stream-without-session")
				return
			}
			// the listening GET is let through; the answer to the server-issued request is refused
			e.armPostOnly = true
			e.sseBody = []byte("id: 1\ndata: {\"jsonrpc\":\"2.0\",\"id\":9,\"method\":\"roots/list\"}\n\n")
			tr := e.client.transport.(*streamableHTTPClientTransport)
			tr.connectGetSSE(hctx)
			vAssert("refused-answer-not-sent", len(e.net.sent) == n0+1)
			vAssert("before-ran-for-stream-and-answer", e.beforeRuns == b0+2)
			vReach("refused-answer")
			return
		}
		vAssert("nothing-sent-when-before-fails", len(e.net.sent) == n0)
		vAssert("before-ran-once-for-the-refused-request", e.beforeRuns == b0+1)
		vReach("refused")
		return
	}
	octx := context.WithValue(context.Background(), verifCtxKey{}, "operation")
	wantTok := interface{}("operation")
	switch op {
	case 0:
		vReach("handshake-only")
		return
	case 1:
		_, err := e.client.CallTool(octx, &CallToolRequest{Params: CallToolParams{Name: "t"}})
		vAssert("request-ok", err == nil)
	case 2:
		vAssert("notification-ok", e.client.SendRootsListChangedNotification(octx) == nil)
	case 3:
		err := e.client.TerminateSession(octx)
		if e.session == "" {
			vAssert("terminate-without-session-sends-nothing", vAnd(err != nil, len(e.net.sent) == n0))
			vReach("terminate-no-session")
			return
		}
		vAssert("terminate-ok", err == nil)
	default:
		if e.session == "" {
			vReach("no-stream-without-session")
			return
		}
		// the listening stream delivers one server-issued request, which the client answers
		e.sseBody = []byte("id: 1\ndata: {\"jsonrpc\":\"2.0\",\"id\":9,\"method\":\"roots/list\"}\n\n")
		tr := e.client.transport.(*streamableHTTPClientTransport)
		cerr := tr.connectGetSSE(hctx)
		vAssert("stream-ends-cleanly", cerr == nil)
		wantTok = "handshake"
		vAssert("stream-and-answer-sent", len(e.net.sent) == n0+2)
		if len(e.net.sent) == n0+2 {
			c19CheckSent(e, e.net.sent[n0], true)
			vAssert("stream-is-GET", e.net.sent[n0].method == "GET")
			c19CheckSent(e, e.net.sent[n0+1], true)
			vAssert("answer-is-POST", e.net.sent[n0+1].method == "POST")
			if e.before == 1 {
				vAssert("before-once-per-background-request", e.beforeRuns == b0+2)
			}
		}
		vReach("stream")
		return
	}
	vAssert("one-request-sent", len(e.net.sent) == n0+1)
	if len(e.net.sent) == n0+1 {
		c19CheckSent(e, e.net.sent[n0], e.session != "")
		if e.before == 1 {
			vAssert("before-once", e.beforeRuns == b0+1)
			if e.beforeRuns == b0+1 {
				vAssert("before-sees-operation-context", e.beforeTok[b0] == wantTok)
			}
		}
	}
	vReach("end")
}
