//verif:pkg .
//verif:use servers_mcp
//verif:bound chains of 0..4 middlewares (quick: 0..3) over behaviours {pass, replace the request by a modified copy, modify the request in place, modify-result, short-circuit, fail} (the tool handler records the modifications it sees), both option forms (one WithMiddleware call with all / one call per middleware), tools/call and ping requests and a notification, on the Streamable server (stateless JSON) and the legacy SSE server
package mcp

import (
	"net/http"
	"context"
	"errors"
	"strings"
	"time"
)

type c15Trace struct {
	events []string
	tokens []interface{}
	tags   []string // "tag-<layer>" arguments the tool handler saw
}

var errC15 = errors.New("middleware-failed")

type c15Key struct{}

func c15Middleware(tr *c15Trace, idx int, behaviour int) Middleware {
	name := []string{"m1", "m2", "m3", "m4"}[idx]
	return func(next HandlerFunc) HandlerFunc {
		return func(ctx context.Context, req *JSONRPCRequest) (JSONRPCMessage, error) {
			tr.events = append(tr.events, name+"<")
			tr.tokens = append(tr.tokens, ctx.Value(c15Key{}))
			var res JSONRPCMessage
			var err error
			switch behaviour {
			case 0: // pass
				res, err = next(ctx, req)
			case 1: // modify request by substitution: a copy carrying one more argument goes down the chain
				nr := *req
				np := map[string]interface{}{}
				if pm, ok := req.Params.(map[string]interface{}); ok {
					for k, v := range pm {
						np[k] = v
					}
				}
				args := map[string]interface{}{}
				if am, ok := np["arguments"].(map[string]interface{}); ok {
					for k, v := range am {
						args[k] = v
					}
				}
				args["tag-"+name] = true
				np["arguments"] = args
				nr.Params = np
				res, err = next(ctx, &nr)
			case 5: // modify request in place
				if pm, ok := req.Params.(map[string]interface{}); ok {
					if am, ok := pm["arguments"].(map[string]interface{}); ok {
						am["tag-"+name] = true
					}
				}
				res, err = next(ctx, req)
			case 2: // modify result: wrap
				res, err = next(ctx, req)
				if err == nil {
					res = map[string]interface{}{"wrapped-by": name, "inner": res}
				}
			case 3: // short-circuit
				res = map[string]interface{}{"short": name}
			default: // fail
				err = errC15
			}
			tr.events = append(tr.events, name+">")
			return res, err
		}
	}
}

// c15Reference: expected trace and outcome kind for behaviours b[0..n).
// outcome: 0 handler result (possibly wrapped), 1 short-circuit by layer k, 2 failure by layer k
func c15Reference(b []int) (trace []string, outcome int, layer int, wrappers []int) {
	names := []string{"m1", "m2", "m3", "m4"}
	var run func(i int) (int, int)
	run = func(i int) (int, int) {
		if i >= len(b) {
			trace = append(trace, "H")
			return 0, -1
		}
		trace = append(trace, names[i]+"<")
		o, l := 0, -1
		switch b[i] {
		case 0, 1, 5:
			o, l = run(i + 1)
		case 2:
			o, l = run(i + 1)
			if o != 2 {
				wrappers = append(wrappers, i)
			}
		case 3:
			o, l = 1, i
			wrappers = nil
		default:
			o, l = 2, i
			wrappers = nil
		}
		trace = append(trace, names[i]+">")
		return o, l
	}
	outcome, layer = run(0)
	return
}

func c15SameTrace(a, b []string) bool {
	if len(a) != len(b) {
		return false
	}
	for i := range a {
		if a[i] != b[i] {
			return false
		}
	}
	return true
}

func c15Run(legacy bool) {
	vRandConcrete(true)
	maxN := 3
	if vTier() == 1 {
		maxN = 4
	}
	n := vChoice("n", maxN+1)
	b := make([]int, n)
	for i := range b {
		b[i] = vChoice("behaviour", 6)
	}
	grouped := vBool("grouped")
	tr := &c15Trace{}
	var mws []Middleware
	for i := range b {
		mws = append(mws, c15Middleware(tr, i, b[i]))
	}
	handler := func(ctx context.Context, r *CallToolRequest) (*CallToolResult, error) {
		tr.events = append(tr.events, "H")
		tr.tokens = append(tr.tokens, ctx.Value(c15Key{}))
		for _, nm := range []string{"m1", "m2", "m3", "m4"} {
			if r.Params.Arguments["tag-"+nm] == true {
				tr.tags = append(tr.tags, nm)
			}
		}
		return NewTextResult("handled"), nil
	}
	ctxFunc := func(ctx context.Context, r *http.Request) context.Context {
		return context.WithValue(ctx, c15Key{}, r.Header.Get("X-Token"))
	}
	body := []byte(`{"jsonrpc":"2.0","id":"q","method":"tools/call","params":{"name":"t","arguments":{}}}`)
	var frame interface{}
	var ok bool
	if !legacy {
		opts := []ServerOption{WithStatelessMode(true), WithPostSSEEnabled(false), WithHTTPContextFunc(ctxFunc)}
		if grouped {
			opts = append(opts, WithMiddleware(mws...))
		} else {
			for _, m := range mws {
				opts = append(opts, WithMiddleware(m))
			}
		}
		srv := NewServer("srv", "1.0", opts...)
		srv.RegisterTool(NewTool("t"), handler)
		// a notification first: it bypasses the chain
		recN := newVerifRecorder()
		srv.httpHandler.ServeHTTP(recN, verifRequest("POST", "/mcp", []byte(`{"jsonrpc":"2.0","method":"notifications/initialized"}`), "Accept", "application/json", "X-Token", "tok"))
		vAssert("notification-bypasses-chain", len(tr.events) == 0)
		rec := newVerifRecorder()
		srv.httpHandler.ServeHTTP(rec, verifRequest("POST", "/mcp", body, "Accept", "application/json", "X-Token", "tok"))
		vAssert("status-200", rec.code() == 200)
		frame, ok = verifParse(rec.body)
	} else {
		opts := []SSEOption{WithSSEContextFunc(ctxFunc)}
		if grouped {
			opts = append(opts, WithSSEMiddleware(mws...))
		} else {
			for _, m := range mws {
				opts = append(opts, WithSSEMiddleware(m))
			}
		}
		srv := NewSSEServer("srv", "1.0", opts...)
		srv.RegisterTool(NewTool("t"), handler)
		session := &sseSession{done: make(chan struct{}), eventQueue: make(chan string, 100), sessionID: "s1",
			notificationChannel: make(chan *JSONRPCNotification, 100), data: make(map[string]interface{})}
		srv.sessions.Store("s1", session)
		rec := newVerifRecorder()
		req := verifRequest("POST", "/message", body, "X-Token", "tok")
		req.URL.RawQuery = "sessionId=s1"
		srv.ServeHTTP(rec, req)
		select {
		case ev := <-session.eventQueue:
			payload := strings.TrimSuffix(strings.TrimPrefix(ev, "event: message\ndata: "), "\n\n")
			frame, ok = verifParse([]byte(payload))
		case <-time.After(300 * time.Millisecond):
		}
	}
	vAssert("answered", ok)
	if !ok {
		return
	}
	wantTrace, outcome, layer, wrappers := c15Reference(b)
	vAssert("onion-trace", c15SameTrace(tr.events, wantTrace))
	if outcome == 0 {
		// the handler ran below every layer: it sees the request as modified by all of them
		var wantTags []string
		for i := range b {
			if b[i] == 1 || b[i] == 5 {
				wantTags = append(wantTags, []string{"m1", "m2", "m3", "m4"}[i])
			}
		}
		vAssert("handler-sees-the-request-as-modified-by-the-layers", c15SameTrace(tr.tags, wantTags))
	}
	for _, tok := range tr.tokens {
		vAssert("own-context-everywhere", tok == "tok")
	}
	names := []string{"m1", "m2", "m3", "m4"}
	res, hasRes, errObj, hasErr := verifResponse(frame, "q")
	switch outcome {
	case 2:
		msg, _ := errObj["message"].(string)
		vAssert("middleware-error-is-32603", vAnd(hasErr, verifErrCode(errObj) == -32603))
		vAssert("middleware-error-text", strings.Contains(msg, "middleware-failed"))
	default:
		vAssert("has-result", hasRes)
		// peel the wrappers, outermost first
		cur := res
		for i := len(wrappers) - 1; i >= 0; i-- {
			m, _ := verifObj(cur)
			vAssert("wrapped-by-outer-layer", m["wrapped-by"] == names[wrappers[i]])
			cur = m["inner"]
		}
		m, _ := verifObj(cur)
		if outcome == 1 {
			vAssert("short-circuit-value-delivered", m["short"] == names[layer])
		} else {
			vAssert("handler-value-delivered", verifIsArray(m["content"]))
		}
	}
	vReach("end")
}

func H_C15_streamable() { c15Run(false) }
func H_C15_legacy_sse() { c15Run(true) }

// H_C15_overlap: two requests from different sessions overlap (the second is served completely while
// the first is inside the outermost middleware's before-phase); each passes every layer exactly once and
// its method handler sees its own session and context.
func H_C15_overlap() {
	vRandConcrete(true)
	n := vChoice("n", 4) + 1
	type obs struct {
		layer string
		tok   interface{}
		sess  string
	}
	var seen []obs
	var nested func()
	depth := 0
	var mws []Middleware
	for i := 0; i < n; i++ {
		name := []string{"m1", "m2", "m3", "m4"}[i]
		first := i == 0
		mws = append(mws, func(next HandlerFunc) HandlerFunc {
			return func(ctx context.Context, req *JSONRPCRequest) (JSONRPCMessage, error) {
				sid := ""
				if s, ok := GetSessionFromContext(ctx); ok && s != nil {
					sid = s.GetID()
				}
				seen = append(seen, obs{name, ctx.Value(c15Key{}), sid})
				if first {
					depth++
					if depth == 1 && nested != nil {
						nested()
					}
				}
				return next(ctx, req)
			}
		})
	}
	ctxFunc := func(ctx context.Context, r *http.Request) context.Context {
		return context.WithValue(ctx, c15Key{}, r.Header.Get("X-Token"))
	}
	opts := []ServerOption{WithPostSSEEnabled(false), WithHTTPContextFunc(ctxFunc)}
	if vBool("grouped") {
		opts = append(opts, WithMiddleware(mws...))
	} else {
		for _, m := range mws {
			opts = append(opts, WithMiddleware(m))
		}
	}
	srv := NewServer("srv", "1.0", opts...)
	srv.RegisterTool(NewTool("t"), func(ctx context.Context, r *CallToolRequest) (*CallToolResult, error) {
		sid := ""
		if s := ClientSessionFromContext(ctx); s != nil {
			sid = s.GetID()
		}
		seen = append(seen, obs{"H", ctx.Value(c15Key{}), sid})
		return NewTextResult("ok"), nil
	})
	mk := func() string {
		rec := newVerifRecorder()
		srv.httpHandler.ServeHTTP(rec, verifRequest("POST", "/mcp",
			[]byte(`{"jsonrpc":"2.0","id":0,"method":"initialize","params":{"protocolVersion":"2025-03-26"}}`), "Accept", "application/json", "X-Token", "init"))
		return rec.header.Get("Mcp-Session-Id")
	}
	sa, sb := mk(), mk()
	vAssume(sa != "" && sb != "" && sa != sb)
	seen = nil
	depth = 0
	call := []byte(`{"jsonrpc":"2.0","id":1,"method":"tools/call","params":{"name":"t","arguments":{}}}`)
	recB := newVerifRecorder()
	nested = func() {
		srv.httpHandler.ServeHTTP(recB, verifRequest("POST", "/mcp", call, "Accept", "application/json", "X-Token", "tokB", "Mcp-Session-Id", sb))
	}
	recA := newVerifRecorder()
	srv.httpHandler.ServeHTTP(recA, verifRequest("POST", "/mcp", call, "Accept", "application/json", "X-Token", "tokA", "Mcp-Session-Id", sa))
	vAssert("both-answered", vAnd(recA.code() == 200, recB.code() == 200))
	// expected: A:m1, then all of B (m1..mn, H), then A:m2..mn, H
	vAssert("every-layer-once-per-request", len(seen) == 2*(n+1))
	if len(seen) == 2*(n+1) {
		names := []string{"m1", "m2", "m3", "m4"}
		k := 0
		expect := func(layer, tok, sid string) {
			vAssert("layer-order", seen[k].layer == layer)
			vAssert("layer-own-context", seen[k].tok == tok)
			vAssert("layer-own-session", seen[k].sess == sid)
			k++
		}
		expect("m1", "tokA", sa)
		for i := 0; i < n; i++ {
			expect(names[i], "tokB", sb)
		}
		expect("H", "tokB", sb)
		for i := 1; i < n; i++ {
			expect(names[i], "tokA", sa)
		}
		expect("H", "tokA", sa)
	}
	vReach("end")
}
