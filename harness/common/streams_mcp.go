//verif:pkg .
//verif:use servers_mcp
package mcp

import (
	"context"
	"strings"
	"time"
)

type c11Stream struct {
	rec     *verifRecorder
	flushed chan struct{}
	done    chan struct{}
	cancel  context.CancelFunc
}

func c11Open(srv *Server, id string, onFirstFlush func()) *c11Stream {
	st := &c11Stream{rec: newVerifRecorder(), flushed: make(chan struct{}, 8), done: make(chan struct{})}
	first := true
	st.rec.onFlush = func() {
		if first {
			first = false
			if onFirstFlush != nil {
				onFirstFlush()
			}
		}
		select {
		case st.flushed <- struct{}{}:
		default:
		}
	}
	ctx, cancel := context.WithCancel(context.Background())
	st.cancel = cancel
	go func() {
		req := verifRequest("GET", "/mcp", nil, "Accept", "text/event-stream", "Mcp-Session-Id", id)
		srv.httpHandler.ServeHTTP(st.rec, req.WithContext(ctx))
		close(st.done)
	}()
	return st
}

func c11Wait(ch chan struct{}) bool {
	select {
	case <-ch:
		return true
	case <-time.After(400 * time.Millisecond):
	}
	return false
}

func c11Session(srv *Server) string {
	rec := newVerifRecorder()
	srv.httpHandler.ServeHTTP(rec, verifRequest("POST", "/mcp",
		[]byte(`{"jsonrpc":"2.0","id":0,"method":"initialize","params":{"protocolVersion":"2025-03-26"}}`), "Accept", "application/json"))
	return rec.header.Get("Mcp-Session-Id")
}

// c11Has: some SSE frame on the stream is a JSON-RPC message mentioning marker (as params.m or as method).
func c11Has(rec *verifRecorder, marker string) bool {
	for _, line := range strings.Split(string(rec.body), "\n") {
		if !strings.HasPrefix(line, "data: ") {
			continue
		}
		doc, ok := verifParse([]byte(strings.TrimPrefix(line, "data: ")))
		if !ok {
			continue
		}
		m, _ := verifObj(doc)
		if meth, _ := m["method"].(string); meth == marker {
			return true
		}
		pm, _ := verifObj(m["params"])
		if v, _ := pm["m"].(string); v == marker {
			return true
		}
	}
	return false
}

