//verif:pkg .
//verif:use servers_mcp
package mcp

import (
	"context"
	"strings"
	"time"
)

type c11Stream struct {
	rec     *verifRecorder
	flushed chan struct{}
	done    chan struct{}
	cancel  context.CancelFunc
}

func c11Open(srv *Server, id string, onFirstFlush func()) *c11Stream {
	st := &c11Stream{rec: newVerifRecorder(), flushed: make(chan struct{}, 8), done: make(chan struct{})}
	first := true
	st.rec.onFlush = func() {
		if first {
			first = false
			if onFirstFlush != nil {
				onFirstFlush()
			}
		}
		select {
		case st.flushed <- struct{}{}:
		default:
		}
	}
	ctx, cancel := context.WithCancel(context.Background())
	st.cancel = cancel
	go func() {
		req := verifRequest("GET", "/mcp", nil, "Accept", "text/event-stream", "Mcp-Session-Id", id)
		srv.httpHandler.ServeHTTP(st.rec, req.WithContext(ctx))
		st.rec.finished = true // what net/http does next: finish the response, unsynchronised
		close(st.done)
	}()
	return st
}

func c11Wait(ch chan struct{}) bool {
	select {
	case <-ch:
		return true
	case <-time.After(400 * time.Millisecond):
	}
	return false
}

func c11Session(srv *Server) string {
	rec := newVerifRecorder()
	srv.httpHandler.ServeHTTP(rec, verifRequest("POST", "/mcp",
		[]byte(`{"jsonrpc":"2.0","id":0,"method":"initialize","params":{"protocolVersion":"2025-03-26"}}`), "Accept", "application/json"))
	return rec.header.Get("Mcp-Session-Id")
}

// c11Has: some SSE frame on the stream is a JSON-RPC message mentioning marker (as params.m or as method).
func c11Has(rec *verifRecorder, marker string) bool {
	for _, line := range strings.Split(string(rec.body), "\n") {
		if !strings.HasPrefix(line, "data: ") {
			continue
		}
		doc, ok := verifParse([]byte(strings.TrimPrefix(line, "data: ")))
		if !ok {
			continue
		}
		m, _ := verifObj(doc)
		if meth, _ := m["method"].(string); meth == marker {
			return true
		}
		pm, _ := verifObj(m["params"])
		if v, _ := pm["m"].(string); v == marker {
			return true
		}
	}
	return false
}


type c11RootsCall struct {
	err  error
	done chan struct{}
}

func (c *c11RootsCall) finished() bool {
	select {
	case <-c.done:
		return true
	default:
	}
	return false
}

// c11StreamWriteFailure: the peer of a session's listening stream goes away while the frame of a
// server-issued request is being written (the Write fails at the id line, at the data line or at the closing
// blank line, taking no byte or one): that request ends with an error and leaves nothing pending, and what the
// server addresses to the session afterwards - a notification, a second request whose context is then
// cancelled - returns as well; once the stream handler has returned no goroutine or table entry is left.
func c11StreamWriteFailure() {
	vRandConcrete(true)
	srv := NewServer("srv", "1.0", WithPostSSEEnabled(false))
	calls := []*c11RootsCall{{done: make(chan struct{})}, {done: make(chan struct{})}}
	ncall := 0
	srv.RegisterTool(NewTool("roots"), func(ctx context.Context, r *CallToolRequest) (*CallToolResult, error) {
		c := calls[ncall]
		ncall++
		_, c.err = srv.ListRoots(ctx)
		close(c.done)
		return NewTextResult("ok"), nil
	})
	a := c11Session(srv)
	vAssume(a != "")
	base := vGoroutines()
	sa := c11Open(srv, a, nil)
	vAssume(c11Wait(sa.flushed))
	sa.rec.failFrom = sa.rec.writes + 1 + vChoice("failAtWrite", 3)
	sa.rec.failShort = vBool("shortWrite")
	post := func(ctx context.Context) {
		rec := newVerifRecorder()
		req := verifRequest("POST", "/mcp", []byte(`{"jsonrpc":"2.0","id":7,"method":"tools/call","params":{"name":"roots"}}`),
			"Accept", "application/json", "Content-Type", "application/json", "Mcp-Session-Id", a)
		srv.httpHandler.ServeHTTP(rec, req.WithContext(ctx))
	}
	pending := func() int {
		srv.httpHandler.responseManager.mutex.RLock()
		defer srv.httpHandler.responseManager.mutex.RUnlock()
		return len(srv.httpHandler.responseManager.pendingRequests)
	}
	go post(context.Background())
	vQuiesce()
	vAssert("request-with-failed-write-ends", calls[0].finished())
	if calls[0].finished() {
		vAssert("request-with-failed-write-reports-error", calls[0].err != nil)
	}
	vAssert("nothing-left-pending", pending() == 0)
	notified := make(chan struct{})
	go func() {
		srv.SendNotification(a, "n/x", map[string]interface{}{"m": "M0"})
		close(notified)
	}()
	vQuiesce()
	vAssert("later-notification-returns", c11Wait(notified))
	ctx, cancel := context.WithCancel(context.Background())
	go post(ctx)
	vQuiesce()
	cancel()
	vQuiesce()
	vAssert("later-request-ends-with-its-context", calls[1].finished())
	vAssert("nothing-left-pending-afterwards", pending() == 0)
	sa.cancel()
	vAssert("stream-handler-returns", c11Wait(sa.done))
	vQuiesce()
	srv.httpHandler.getSSEConnectionsLock.RLock()
	left := len(srv.httpHandler.getSSEConnections)
	srv.httpHandler.getSSEConnectionsLock.RUnlock()
	vAssert("no-stream-entry-left", left == 0)
	vAssert("no-goroutine-left-behind", vGoroutines() <= base)
	vReach("end")
}
