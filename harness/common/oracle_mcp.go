//verif:pkg .
//verif:assume the shape oracle is hand-written from the JSON-RPC 2.0 / MCP 2025-03-26 schema over generic JSON trees (map/slice/string/float64/bool/nil) and does not use the library's structs
package mcp

// verifResponse checks that v is a JSON-RPC response echoing id; it returns the result
// (when present) and the error object (when present).
func verifResponse(v interface{}, id interface{}) (result interface{}, hasResult bool, errObj map[string]interface{}, hasErr bool) {
	m, ok := verifObj(v)
	vAssert("response-is-object", ok)
	if !ok {
		return nil, false, nil, false
	}
	ver, _ := m["jsonrpc"].(string)
	vAssert("response-version-2.0", ver == "2.0")
	rid, hasID := m["id"]
	vAssert("response-echoes-id", vAnd(hasID, verifSameID(rid, id)))
	result, hasResult = m["result"]
	e, he := m["error"]
	hasErr = he
	vAssert("exactly-one-of-result-error", hasResult != hasErr)
	_, hasMethod := m["method"]
	vAssert("response-has-no-method", !hasMethod)
	if hasErr {
		eo, isObj := verifObj(e)
		vAssert("error-is-object", isObj)
		if isObj {
			errObj = eo
			code, codeOK := eo["code"].(float64)
			vAssert("error-code-integer", vAnd(codeOK, code == float64(int64(code))))
			_, msgOK := eo["message"].(string)
			vAssert("error-message-string", msgOK)
		}
	}
	return
}

func verifErrCode(errObj map[string]interface{}) float64 {
	if errObj == nil {
		return 0
	}
	c, _ := errObj["code"].(float64)
	return c
}

func verifIsString(v interface{}) bool { _, ok := v.(string); return ok }
func verifIsObject(v interface{}) bool { _, ok := v.(map[string]interface{}); return ok }
func verifIsArray(v interface{}) bool  { _, ok := v.([]interface{}); return ok }

// verifContentItem: one MCP content item.
func verifContentItem(v interface{}) bool {
	m, ok := verifObj(v)
	if !ok {
		return false
	}
	t, _ := m["type"].(string)
	switch t {
	case "text":
		return verifIsString(m["text"])
	case "image", "audio":
		return verifIsString(m["data"]) && verifIsString(m["mimeType"])
	case "resource":
		r, ok := verifObj(m["resource"])
		return ok && verifIsString(r["uri"]) && (verifIsString(r["text"]) || verifIsString(r["blob"]))
	}
	return false
}

// verifResultShape: the result object has the shape the protocol prescribes for method.
func verifResultShape(method string, result interface{}) bool {
	m, ok := verifObj(result)
	if !ok {
		return false
	}
	switch method {
	case "initialize":
		si, ok := verifObj(m["serverInfo"])
		return verifIsString(m["protocolVersion"]) && ok && verifIsString(si["name"]) && verifIsString(si["version"]) && verifIsObject(m["capabilities"])
	case "ping":
		return len(m) == 0
	case "tools/list":
		arr, ok := m["tools"].([]interface{})
		if !ok {
			return false
		}
		for _, t := range arr {
			tm, ok := verifObj(t)
			if !ok || !verifIsString(tm["name"]) || !verifIsObject(tm["inputSchema"]) {
				return false
			}
		}
		return true
	case "tools/call":
		arr, ok := m["content"].([]interface{})
		if !ok {
			return false
		}
		for _, c := range arr {
			if !verifContentItem(c) {
				return false
			}
		}
		if ie, has := m["isError"]; has {
			if _, ok := ie.(bool); !ok {
				return false
			}
		}
		return true
	case "prompts/list":
		arr, ok := m["prompts"].([]interface{})
		if !ok {
			return false
		}
		for _, p := range arr {
			pm, ok := verifObj(p)
			if !ok || !verifIsString(pm["name"]) {
				return false
			}
		}
		return true
	case "prompts/get":
		arr, ok := m["messages"].([]interface{})
		if !ok {
			return false
		}
		for _, x := range arr {
			mm, ok := verifObj(x)
			if !ok {
				return false
			}
			role, _ := mm["role"].(string)
			if role != "user" && role != "assistant" {
				return false
			}
			if !verifContentItem(mm["content"]) {
				return false
			}
		}
		return true
	case "resources/list":
		arr, ok := m["resources"].([]interface{})
		if !ok {
			return false
		}
		for _, r := range arr {
			rm, ok := verifObj(r)
			if !ok || !verifIsString(rm["uri"]) || !verifIsString(rm["name"]) {
				return false
			}
		}
		return true
	case "resources/read":
		arr, ok := m["contents"].([]interface{})
		if !ok {
			return false
		}
		for _, c := range arr {
			cm, ok := verifObj(c)
			if !ok || !verifIsString(cm["uri"]) || !(verifIsString(cm["text"]) || verifIsString(cm["blob"])) {
				return false
			}
		}
		return true
	}
	return true
}

var verifDispatchSet = []string{"initialize", "ping", "tools/list", "tools/call", "resources/list", "resources/read",
	"resources/templates/list", "resources/subscribe", "resources/unsubscribe", "prompts/list", "prompts/get", "completion/complete"}

func verifKnownMethod(m string) bool {
	for _, k := range verifDispatchSet {
		if m == k {
			return true
		}
	}
	return false
}

// verifDeepEqual: structural equality of two generic JSON trees (numbers as float64).
func verifDeepEqual(a, b interface{}) bool {
	switch x := a.(type) {
	case nil:
		return b == nil
	case string:
		y, ok := b.(string)
		return ok && x == y
	case float64:
		y, ok := b.(float64)
		return ok && x == y
	case bool:
		y, ok := b.(bool)
		return ok && x == y
	case []interface{}:
		y, ok := b.([]interface{})
		if !ok || len(x) != len(y) {
			return false
		}
		r := true
		for i := range x {
			r = vAnd(r, verifDeepEqual(x[i], y[i]))
		}
		return r
	case map[string]interface{}:
		y, ok := b.(map[string]interface{})
		if !ok || len(x) != len(y) {
			return false
		}
		r := true
		for k, v := range x {
			w, has := y[k]
			if !has {
				return false
			}
			r = vAnd(r, verifDeepEqual(v, w))
		}
		return r
	}
	return false
}
