//verif:pkg .
//verif:assume HTTP exchanges are driven through ServeHTTP with a recording http.ResponseWriter+Flusher and hand-built *http.Request values (Method, URL.Path, Header, Body); net/http's own parsing, routing and connection handling are outside the claim
package mcp

import (
	"context"
	"encoding/json"
	"errors"
	"io"
	"net/http"
	"net/url"
)

// ---- recording response writer ----

type verifRecorder struct {
	header      http.Header
	status      int
	wroteHeader bool
	body        []byte
	writes      int
	flushes     int
	onFlush     func()
	onWrite     func()
	// failFrom > 0: the failFrom-th Write and every later one fail (the peer is gone); failShort: the first
	// failing Write still takes one byte
	failFrom  int
	failShort bool
	// finished is set (by the goroutine that ran the handler) once ServeHTTP has returned; net/http then
	// finishes the response without further synchronisation, so any later use of the ResponseWriter is a
	// data race with that step: Write and Flush read the flag, which makes such a use visible to the race
	// detectors (the engine's and the runtime's)
	finished bool
}

var errVerifBrokenPipe = errors.New("write: broken pipe")

func newVerifRecorder() *verifRecorder { return &verifRecorder{header: http.Header{}} }

func (r *verifRecorder) Header() http.Header { return r.header }
func (r *verifRecorder) WriteHeader(code int) {
	if !r.wroteHeader {
		r.status = code
		r.wroteHeader = true
	}
}
func (r *verifRecorder) Write(p []byte) (int, error) {
	_ = r.finished
	if !r.wroteHeader {
		r.WriteHeader(200)
	}
	if r.onWrite != nil {
		r.onWrite()
	}
	r.writes++
	if r.failFrom > 0 && r.writes >= r.failFrom {
		if r.failShort && r.writes == r.failFrom && len(p) > 1 {
			return 1, errVerifBrokenPipe // the byte taken is not recorded
		}
		return 0, errVerifBrokenPipe
	}
	r.body = append(r.body, p...)
	return len(p), nil
}
func (r *verifRecorder) Flush() {
	_ = r.finished
	r.flushes++
	if r.onFlush != nil {
		r.onFlush()
	}
}

// code is what an HTTP client would see.
func (r *verifRecorder) code() int {
	if !r.wroteHeader {
		return 200
	}
	return r.status
}

// ---- request body ----

type verifBody struct {
	data   []byte
	off    int
	closed bool
}

func (b *verifBody) Read(p []byte) (int, error) {
	if b.off >= len(b.data) {
		return 0, io.EOF
	}
	n := copy(p, b.data[b.off:])
	b.off += n
	return n, nil
}
func (b *verifBody) Close() error                  { b.closed = true; return nil }
func (b *verifBody) VerifReadAll() ([]byte, error) { return b.data, nil }

func verifRequest(method, path string, body []byte, kv ...string) *http.Request {
	h := http.Header{}
	for i := 0; i+1 < len(kv); i += 2 {
		if kv[i+1] != "" {
			h.Set(kv[i], kv[i+1])
		}
	}
	return &http.Request{Method: method, URL: &url.URL{Path: path}, Header: h, Body: &verifBody{data: body}}
}

// ---- generic JSON tree helpers (oracle side; independent of the library's structs) ----

func verifParse(b []byte) (interface{}, bool) {
	var v interface{}
	if err := json.Unmarshal(b, &v); err != nil {
		return nil, false
	}
	return v, true
}

func verifObj(v interface{}) (map[string]interface{}, bool) {
	m, ok := v.(map[string]interface{})
	return m, ok
}

// verifSameID: JSON ids are equal (string = string, number = number).
func verifSameID(a, b interface{}) bool {
	switch x := a.(type) {
	case string:
		y, ok := b.(string)
		return ok && x == y
	case float64:
		y, ok := b.(float64)
		return ok && x == y
	}
	return false
}

// ---- handlers with scripted outcomes ----

var errVerifHandler = errors.New("handler-boom")

type verifToolLog struct {
	calls    int
	lastArgs map[string]interface{}
	lastName string
}

// verifToolHandler: outcome 0 = one text item, 1 = empty result (nil content), 2 = error, 3 = un-encodable (NaN)
// structured content, 4 = structured content only (nil content), 5 = error flag only (nil content)
func verifToolHandler(log *verifToolLog, outcome int, text string) toolHandler {
	return func(ctx context.Context, req *CallToolRequest) (*CallToolResult, error) {
		log.calls++
		log.lastArgs = req.Params.Arguments
		log.lastName = req.Params.Name
		switch outcome {
		case 0:
			return NewTextResult(text), nil
		case 1:
			return &CallToolResult{}, nil
		case 2:
			return nil, errVerifHandler
		case 4:
			return &CallToolResult{StructuredContent: map[string]interface{}{"x": 1}}, nil
		case 5:
			return &CallToolResult{IsError: true}, nil
		}
		nan := 0.0
		nan = nan / nan
		return &CallToolResult{Content: []Content{NewTextContent(text)}, StructuredContent: map[string]interface{}{"x": nan}}, nil
	}
}
