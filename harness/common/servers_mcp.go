//verif:pkg .
//verif:use fakes_mcp
//verif:use oracle_mcp
//verif:assume session ids come from the real generator fed with distinct concrete CSPRNG bytes (the generator itself is C04's kernel)
package mcp

import (
	"context"
	"encoding/json"
	"strings"
	"time"
)

type c03Env struct {
	srv     *Server
	toolLog *verifToolLog
	toolOut int
	prOut   int
	resOut  int
	session string
	accept  string
	mode    int
}

func c03Setup(mode int) *c03Env {
	vRandConcrete(true)
	e := &c03Env{toolLog: &verifToolLog{}, mode: mode}
	var opts []ServerOption
	switch mode {
	case 0: // stateless, JSON answers
		opts = append(opts, WithStatelessMode(true), WithPostSSEEnabled(false))
		e.accept = "application/json"
	case 1: // stateless, SSE answers
		opts = append(opts, WithStatelessMode(true))
		e.accept = "application/json, text/event-stream"
	case 2: // sessions disabled
		opts = append(opts, WithoutSession(), WithPostSSEEnabled(false))
		e.accept = "application/json"
	default: // stateful
		opts = append(opts, WithPostSSEEnabled(false))
		e.accept = "application/json"
	}
	e.srv = NewServer("srv", "1.0", opts...)
	e.toolOut, e.prOut, e.resOut = -1, -1, -1
	e.srv.RegisterTool(NewTool("t"), func(ctx context.Context, r *CallToolRequest) (*CallToolResult, error) {
		// the outcome is chosen when (and only if) the handler runs
		e.toolOut = vChoice("toolOutcome", 6)
		return verifToolHandler(e.toolLog, e.toolOut, "hello")(ctx, r)
	})
	e.srv.RegisterPrompt(&Prompt{Name: "p"}, func(ctx context.Context, r *GetPromptRequest) (*GetPromptResult, error) {
		e.prOut = vChoice("promptOutcome", 2)
		if e.prOut == 1 {
			return nil, errVerifHandler
		}
		return &GetPromptResult{Messages: []PromptMessage{{Role: RoleUser, Content: NewTextContent("hi")}}}, nil
	})
	e.srv.RegisterResource(&Resource{URI: "file:///r", Name: "r"}, func(ctx context.Context, r *ReadResourceRequest) (ResourceContents, error) {
		e.resOut = vChoice("resourceOutcome", 2)
		if e.resOut == 1 {
			return nil, errVerifHandler
		}
		return TextResourceContents{URI: "file:///r", Text: "body"}, nil
	})
	if mode == 3 {
		rec := newVerifRecorder()
		e.srv.httpHandler.ServeHTTP(rec, verifRequest("POST", "/mcp",
			[]byte(`{"jsonrpc":"2.0","id":0,"method":"initialize","params":{"protocolVersion":"2025-03-26"}}`), "Accept", e.accept))
		e.session = rec.header.Get("Mcp-Session-Id")
		vAssume(rec.code() == 200 && e.session != "")
	}
	return e
}

// c03Frame extracts the JSON-RPC frame of the exchange: the JSON body, or the data of the one SSE event.
func c03Frame(rec *verifRecorder, sse bool) (interface{}, bool) {
	if !sse {
		return verifParse(rec.body)
	}
	var data string
	n := 0
	for _, line := range strings.Split(string(rec.body), "\n") {
		if strings.HasPrefix(line, "data: ") {
			data += strings.TrimPrefix(line, "data: ")
			n++
		}
	}
	if n == 0 {
		return nil, false
	}
	return verifParse([]byte(data))
}

func c03Modes() int {
	if vTier() == 1 {
		return 4
	}
	return 2
}

// H_C03_streamable_envelope: arbitrary envelope (every kind in jsonrpc / method / id / params, shallow values).
// H_C03_streamable_methods: well-formed envelope (string or integer id), every served method and an
// arbitrary other method name, arbitrary params document of depth 2.
func c03Exchange(e *c03Env, body []byte) {
	rec := newVerifRecorder()
	e.srv.httpHandler.ServeHTTP(rec, verifRequest("POST", "/mcp", body, "Accept", e.accept, "Mcp-Session-Id", e.session))
	status := rec.code()
	is2xx := status >= 200 && status < 300

	// independent reading of the request document
	doc, _ := verifParse(body)
	obj, isObj := verifObj(doc)
	if !isObj {
		vAssert("non-object-refused", !is2xx)
		vReach("refused")
		return
	}
	if jv, hasJ := obj["jsonrpc"]; hasJ && jv != nil && !verifIsString(jv) {
		// envelope field of the wrong JSON kind: refused (or answered with an error), never an empty success
		vAssert("bad-jsonrpc-kind-not-empty-success", vOr(!is2xx, len(rec.body) > 0))
		vReach("bad-jsonrpc")
		return
	}
	if mv, hasM := obj["method"]; hasM && mv != nil && !verifIsString(mv) {
		vAssert("bad-method-kind-not-empty-success", vOr(!is2xx, len(rec.body) > 0))
		vReach("bad-method")
		return
	}
	method, _ := obj["method"].(string)
	id, hasID := obj["id"]
	idUsable := hasID && (verifIsString(id) || func() bool { _, ok := id.(float64); return ok }())
	switch {
	case method != "" && hasID && id != nil:
		if !idUsable {
			// ids that are neither string nor number: any refusal or error answer is fine, but not an empty success
			vAssert("odd-id-not-empty-success", vOr(!is2xx, len(rec.body) > 0))
			vReach("odd-id")
			return
		}
		c03CheckRequest(e, rec, obj, method, id, is2xx)
	case method != "":
		// notification (no id or null id): accepted without a body, or refused
		vAssert("notification-no-frame", vOr(!is2xx, len(rec.body) == 0))
		vAssert("notification-accepted-202", vImplies(is2xx, status == 202))
		vReach("notification")
	case hasID && id != nil:
		vAssert("response-post-no-frame", vOr(!is2xx, len(rec.body) == 0))
		vReach("response-post")
	default:
		vAssert("neither-refused", !is2xx)
		vReach("neither")
	}
}

func c03CheckRequest(e *c03Env, rec *verifRecorder, obj map[string]interface{}, method string, id interface{}, is2xx bool) {
	// a well-formed request envelope is served: 200 and exactly one frame
	vAssert("request-answered-200", rec.code() == 200)
	if rec.code() != 200 {
		return
	}
	vAssert("never-empty-2xx", len(rec.body) > 0)
	if len(rec.body) == 0 {
		vReach("empty-200")
		return
	}
	frame, ok := c03Frame(rec, e.mode == 1)
	vAssert("frame-is-json", ok)
	if !ok {
		return
	}
	c03CheckFrame(e, frame, obj, method, id)
}

// c03CheckFrame: the frame answering a well-formed request (method string, string or number id).
func c03CheckFrame(e *c03Env, frame interface{}, obj map[string]interface{}, method string, id interface{}) {
	result, hasResult, errObj, hasErr := verifResponse(frame, id)
	code := verifErrCode(errObj)
	if !verifKnownMethod(method) {
		vAssert("unknown-method-32601", vAnd(hasErr, code == -32601))
		vReach("unknown-method")
		return
	}
	params, hasParams := obj["params"]
	pm, paramsObj := verifObj(params)
	switch method {
	case "tools/call":
		name, nameOK := pm["name"].(string)
		args, hasArgs := pm["arguments"]
		switch {
		case !hasParams || params == nil || !paramsObj || !nameOK || name == "":
			vAssert("tools-call-bad-params-32602", vAnd(hasErr, code == -32602))
		case name != "t":
			vAssert("unknown-tool-is-error", hasErr)
		case hasArgs && args != nil && !verifIsObject(args):
			vAssert("tools-call-bad-arguments-32602", vAnd(hasErr, code == -32602))
		default:
			vAssert("handler-ran-once", e.toolLog.calls == 1)
			switch e.toolOut {
			case 0, 1, 4, 5:
				vAssert("tool-result", hasResult)
				if hasResult {
					vAssert("tool-result-shape", verifResultShape(method, result))
				}
			case 2:
				msg, _ := errObj["message"].(string)
				vAssert("handler-error-32603", vAnd(hasErr, code == -32603))
				vAssert("handler-error-message", strings.Contains(msg, "handler-boom"))
			default:
				vAssert("unencodable-result-32603", vAnd(hasErr, code == -32603))
			}
		}
		vReach("tools-call")
	case "prompts/get":
		name, nameOK := pm["name"].(string)
		switch {
		case !hasParams || params == nil || !paramsObj || !nameOK:
			vAssert("prompts-get-bad-params-32602", vAnd(hasErr, code == -32602))
		case name != "p":
			vAssert("unknown-prompt-is-error", hasErr)
		case e.prOut == 1:
			msg, _ := errObj["message"].(string)
			vAssert("prompt-handler-error-32603", vAnd(hasErr, vAnd(code == -32603, strings.Contains(msg, "handler-boom"))))
		default:
			vAssert("prompt-result-shape", vAnd(hasResult, verifResultShape(method, result)))
		}
		vReach("prompts-get")
	case "resources/read":
		uri, uriOK := pm["uri"].(string)
		switch {
		case !hasParams || params == nil || !paramsObj || !uriOK:
			vAssert("resources-read-bad-params-32602", vAnd(hasErr, code == -32602))
		case uri != "file:///r":
			vAssert("unknown-resource-is-error", hasErr)
		case e.resOut == 1:
			msg, _ := errObj["message"].(string)
			vAssert("resource-handler-error-32603", vAnd(hasErr, vAnd(code == -32603, strings.Contains(msg, "handler-boom"))))
		default:
			vAssert("resource-result-shape", vAnd(hasResult, verifResultShape(method, result)))
		}
		vReach("resources-read")
	case "initialize":
		_, pvOK := pm["protocolVersion"].(string)
		if !hasParams || params == nil || !paramsObj || !pvOK {
			vAssert("initialize-bad-params-32602", vAnd(hasErr, code == -32602))
		} else {
			vAssert("initialize-result-shape", vAnd(hasResult, verifResultShape(method, result)))
		}
		vReach("initialize")
	default:
		if hasResult {
			vAssert("result-shape", verifResultShape(method, result))
		}
		vReach("other-method")
	}
}

// H_C03_streamable_wrong_path_or_verb: an exchange the server does not serve is refused.
type verifWriter struct {
	data   []byte
	writes int
}

func (w *verifWriter) Write(p []byte) (int, error) {
	w.data = append(w.data, p...)
	w.writes++
	return len(p), nil
}

func c03RegisterStdio(e *c03Env, srv *StdioServer) {
	e.toolOut, e.prOut, e.resOut = -1, -1, -1
	srv.RegisterTool(NewTool("t"), func(ctx context.Context, r *CallToolRequest) (*CallToolResult, error) {
		e.toolOut = vChoice("toolOutcome", 6)
		return verifToolHandler(e.toolLog, e.toolOut, "hello")(ctx, r)
	})
	srv.RegisterPrompt(&Prompt{Name: "p"}, func(ctx context.Context, r *GetPromptRequest) (*GetPromptResult, error) {
		e.prOut = vChoice("promptOutcome", 2)
		if e.prOut == 1 {
			return nil, errVerifHandler
		}
		return &GetPromptResult{Messages: []PromptMessage{{Role: RoleUser, Content: NewTextContent("hi")}}}, nil
	})
	srv.RegisterResource(&Resource{URI: "file:///r", Name: "r"}, func(ctx context.Context, r *ReadResourceRequest) (ResourceContents, error) {
		e.resOut = vChoice("resourceOutcome", 2)
		if e.resOut == 1 {
			return nil, errVerifHandler
		}
		return TextResourceContents{URI: "file:///r", Text: "body"}, nil
	})
}

var c03StdioMethods = []string{"initialize", "ping", "tools/list", "tools/call", "resources/list", "resources/read", "prompts/list", "prompts/get"}

func c03BuildRequest(methods []string) []byte {
	var id interface{}
	if vChoice("idKind", 2) == 0 {
		id = vString("id", 8)
	} else {
		id = vInt64Range("idn", 0, 1<<53)
	}
	var method string
	k := vChoice("method", len(methods)+1)
	if k < len(methods) {
		method = methods[k]
	} else {
		method = vString("method", 12)
		vAssume(method != "")
	}
	doc := map[string]interface{}{"jsonrpc": "2.0", "id": id, "method": method}
	if vChoice("hasParams", 2) == 0 {
		doc["params"] = json.RawMessage(vJSON("params", 2))
	}
	body, err := json.Marshal(doc)
	if err != nil {
		panic(err)
	}
	return body
}

// c03StdioKnown: the methods the stdio server serves.
func c03StdioKnown(m string) bool {
	for _, k := range c03StdioMethods {
		if m == k {
			return true
		}
	}
	return false
}

func c03StdioExchange(line []byte) {
	e := &c03Env{toolLog: &verifToolLog{}, mode: 10}
	srv := NewStdioServer("srv", "1.0")
	c03RegisterStdio(e, srv)
	tr := newStdioTransport(srv.internal)
	w := &verifWriter{}
	err := tr.processMessage(context.Background(), string(line)+"\n", w)
	_ = err

	doc, parsed := verifParse(line)
	obj, isObj := verifObj(doc)
	if !parsed || !isObj {
		vAssert("non-object-answered-or-silent", true)
		vReach("non-object")
		return
	}
	if jv, hasJ := obj["jsonrpc"]; !hasJ || jv == nil || !verifIsString(jv) {
		vReach("bad-jsonrpc")
		return
	}
	if mv, hasM := obj["method"]; hasM && mv != nil && !verifIsString(mv) {
		vReach("bad-method")
		return
	}
	method, _ := obj["method"].(string)
	id, hasID := obj["id"]
	isNum := func() bool { _, ok := id.(float64); return ok }()
	if method == "" || !hasID || id == nil || !(verifIsString(id) || isNum) {
		vReach("not-a-request")
		return
	}
	if ver, _ := obj["jsonrpc"].(string); ver != "2.0" {
		vReach("other-version")
		return
	}
	// a well-formed request: exactly one line, payload then newline
	vAssert("stdio-answered", len(w.data) > 0)
	if len(w.data) == 0 {
		vReach("stdio-silent")
		return
	}
	text := string(w.data)
	vAssert("stdio-one-line", vAnd(strings.HasSuffix(text, "\n"), strings.Count(text, "\n") == 1))
	frame, ok := verifParse([]byte(strings.TrimSuffix(text, "\n")))
	vAssert("stdio-frame-is-json", ok)
	if !ok {
		return
	}
	if !c03StdioKnown(method) {
		_, _, errObj, hasErr := verifResponse(frame, id)
		vAssert("stdio-unknown-method-32601", vAnd(hasErr, verifErrCode(errObj) == -32601))
		vReach("stdio-unknown-method")
		return
	}
	c03CheckFrame(e, frame, obj, method, id)
}

func c03SSEExchange(body []byte) {
	e := &c03Env{toolLog: &verifToolLog{}, mode: 20}
	srv := NewSSEServer("srv", "1.0")
	e.toolOut, e.prOut, e.resOut = -1, -1, -1
	srv.RegisterTool(NewTool("t"), func(ctx context.Context, r *CallToolRequest) (*CallToolResult, error) {
		e.toolOut = vChoice("toolOutcome", 6)
		return verifToolHandler(e.toolLog, e.toolOut, "hello")(ctx, r)
	})
	srv.RegisterPrompt(&Prompt{Name: "p"}, func(ctx context.Context, r *GetPromptRequest) (*GetPromptResult, error) {
		e.prOut = vChoice("promptOutcome", 2)
		if e.prOut == 1 {
			return nil, errVerifHandler
		}
		return &GetPromptResult{Messages: []PromptMessage{{Role: RoleUser, Content: NewTextContent("hi")}}}, nil
	})
	srv.RegisterResource(&Resource{URI: "file:///r", Name: "r"}, func(ctx context.Context, r *ReadResourceRequest) (ResourceContents, error) {
		e.resOut = vChoice("resourceOutcome", 2)
		if e.resOut == 1 {
			return nil, errVerifHandler
		}
		return TextResourceContents{URI: "file:///r", Text: "body"}, nil
	})
	session := &sseSession{
		done:                make(chan struct{}),
		eventQueue:          make(chan string, 100),
		sessionID:           "s1",
		notificationChannel: make(chan *JSONRPCNotification, 100),
		createdAt:           time.Now(),
		lastActivity:        time.Now(),
		data:                make(map[string]interface{}),
	}
	srv.sessions.Store("s1", session)
	rec := newVerifRecorder()
	req := verifRequest("POST", "/message", body)
	req.URL.RawQuery = "sessionId=s1"
	srv.ServeHTTP(rec, req)
	status := rec.code()
	is2xx := status >= 200 && status < 300
	doc, _ := verifParse(body)
	obj, isObj := verifObj(doc)
	if !isObj {
		vAssert("sse-non-object-refused", vOr(!is2xx, len(rec.body) > 0))
		vReach("non-object")
		return
	}
	if jv, hasJ := obj["jsonrpc"]; hasJ && jv != nil && !verifIsString(jv) {
		vAssert("sse-bad-jsonrpc-not-silent-success", vOr(!is2xx, len(rec.body) > 0))
		vReach("bad-jsonrpc")
		return
	}
	if mv, hasM := obj["method"]; hasM && mv != nil && !verifIsString(mv) {
		vAssert("sse-bad-method-not-silent-success", vOr(!is2xx, len(rec.body) > 0))
		vReach("bad-method")
		return
	}
	method, _ := obj["method"].(string)
	id, hasID := obj["id"]
	isNum := func() bool { _, ok := id.(float64); return ok }()
	if method == "" || !hasID || id == nil || !(verifIsString(id) || isNum) {
		vReach("not-a-request")
		return
	}
	vAssert("sse-request-accepted-202", status == 202)
	// the answer is queued on the session stream
	var event string
	gotEvent := false
	select {
	case event = <-session.eventQueue:
		gotEvent = true
	case <-time.After(300 * time.Millisecond):
	}
	vAssert("sse-request-answered-on-stream", gotEvent)
	if !gotEvent {
		vReach("sse-silent")
		return
	}
	// event: message\ndata: <json>\n\n
	vAssert("sse-event-framing", vAnd(strings.HasPrefix(event, "event: message\ndata: "), strings.HasSuffix(event, "\n\n")))
	payload := strings.TrimSuffix(strings.TrimPrefix(event, "event: message\ndata: "), "\n\n")
	frame, ok := verifParse([]byte(payload))
	vAssert("sse-frame-is-json", ok)
	if !ok {
		return
	}
	c03CheckFrame(e, frame, obj, method, id)
}

// H_C03_unparsable: input that is not JSON is reported (-32700 or an HTTP 4xx), on every server kind.
