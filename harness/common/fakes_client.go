//verif:pkg .
//verif:assume client-side HTTP is observed at a recording HTTPReqHandler (the configured request handler) and at a recording http.RoundTripper installed in the client's http.Client; net/http's client internals (redirects, cookies, connection reuse) are outside the claim
package mcp

import (
	"context"
	"io"
	"net/http"
	"sync"
)

type verifSent struct {
	method     string
	url        string
	path       string
	header     http.Header
	body       []byte
	ctx        context.Context
	viaHandler bool
}

// verifNet records every outgoing request and answers it with a scripted response.
type verifNet struct {
	mu      sync.Mutex
	sent    []*verifSent
	respond func(s *verifSent) (*http.Response, error)
}

func (n *verifNet) record(ctx context.Context, req *http.Request, viaHandler bool) *verifSent {
	s := &verifSent{method: req.Method, url: req.URL.String(), path: req.URL.Path, header: req.Header, ctx: ctx, viaHandler: viaHandler}
	if req.Body != nil {
		b, _ := io.ReadAll(req.Body)
		s.body = b
	}
	n.mu.Lock()
	n.sent = append(n.sent, s)
	n.mu.Unlock()
	return s
}

// verifReqHandler is the "configured request handler".
type verifReqHandler struct{ net *verifNet }

func (h *verifReqHandler) Handle(ctx context.Context, client *http.Client, req *http.Request) (*http.Response, error) {
	s := h.net.record(ctx, req, true)
	return h.net.respond(s)
}

// verifRoundTripper sees requests that bypass the handler and go through http.Client.Do.
type verifRoundTripper struct{ net *verifNet }

func (rt *verifRoundTripper) RoundTrip(req *http.Request) (*http.Response, error) {
	s := rt.net.record(req.Context(), req, false)
	return rt.net.respond(s)
}

func verifResp(status int, body []byte, kv ...string) *http.Response {
	h := http.Header{}
	for i := 0; i+1 < len(kv); i += 2 {
		if kv[i+1] != "" {
			h.Set(kv[i], kv[i+1])
		}
	}
	return &http.Response{StatusCode: status, Status: "status", Header: h, Body: &verifBody{data: body}}
}

type verifCtxKey struct{}

// verifStream is a response body that stays open: chunks are pushed by the scripted server.
type verifStream struct {
	ch     chan []byte
	done   chan struct{}
	closed bool
	buf    []byte
}

func newVerifStream() *verifStream {
	return &verifStream{ch: make(chan []byte, 32), done: make(chan struct{})}
}

func (s *verifStream) VerifNextChunk() ([]byte, error) {
	select {
	case b, ok := <-s.ch:
		if !ok {
			return nil, io.EOF
		}
		return b, nil
	case <-s.done:
		return nil, io.ErrClosedPipe
	}
}

func (s *verifStream) Read(p []byte) (int, error) {
	if len(s.buf) == 0 {
		b, err := s.VerifNextChunk()
		if err != nil {
			return 0, err
		}
		s.buf = b
	}
	n := copy(p, s.buf)
	s.buf = s.buf[n:]
	return n, nil
}

func (s *verifStream) Close() error {
	if !s.closed {
		s.closed = true
		close(s.done)
	}
	return nil
}

func (s *verifStream) push(b []byte) { s.ch <- b }
func (s *verifStream) end()          { close(s.ch) }

// verifBridge connects a client to an in-process server: every HTTP request the client builds is
// served by the server's ServeHTTP with a recording writer, and the recording becomes the response.
type verifBridge struct {
	handler  http.Handler
	requests int
}

func (b *verifBridge) Handle(ctx context.Context, client *http.Client, req *http.Request) (*http.Response, error) {
	b.requests++
	var body []byte
	if req.Body != nil {
		body, _ = io.ReadAll(req.Body)
	}
	rec := newVerifRecorder()
	sreq := &http.Request{Method: req.Method, URL: req.URL, Header: req.Header, Body: &verifBody{data: body}}
	b.handler.ServeHTTP(rec, sreq.WithContext(ctx))
	return &http.Response{StatusCode: rec.code(), Status: "status", Header: rec.header, Body: &verifBody{data: rec.body}}, nil
}
