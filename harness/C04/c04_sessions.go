//verif:pkg .
//verif:use servers_mcp
//verif:use streams_mcp
//verif:bound stateful: pre-state = 0..2 live sessions built by real initialize exchanges (each handshake completed or not, each with or without an open GET stream) and 0..1 deleted session; then 1 step (thorough: also with POST answers as SSE) over verb {POST, GET, DELETE, PUT} x session header {none, live A, live B, deleted, arbitrary never-issued string <= 34 chars} x body {initialize, ping, initialized notification, other notification, response object, non-JSON, object without id and method}; a session whose listening stream was replaced by 0..2 further GETs (each earlier handler having returned or not) and is then deleted: every stream of it ends and no stream entry is left; stateless and session-disabled configurations with GET/POST-SSE on or off; after every step the reported live set equals the model's
//verif:bound id generator: 16 symbolic CSPRNG bytes through the real hex encoder
//verif:assume the one-minute sweeper / one-hour expiry is not exercised (tickers never fire); more than two live sessions and longer histories are covered only by the inductive reading of the one-step check
package mcp

import (
	"strings"
	"time"

	"trpc.group/trpc-go/trpc-mcp-go/internal/session"
)

type c04Model struct {
	live    map[string]bool
	stream  map[string]*c04Stream
	life    map[string]int // 0 none, 1 initialize seen, 2 initialized
	deleted map[string]bool
}

type c04Stream struct {
	rec     *verifRecorder
	flushed chan struct{}
	done    chan struct{}
}

const c04Init = `{"jsonrpc":"2.0","id":1,"method":"initialize","params":{"protocolVersion":"2025-03-26"}}`

func c04Open(srv *Server, id string) *c04Stream {
	st := &c04Stream{rec: newVerifRecorder(), flushed: make(chan struct{}, 4), done: make(chan struct{})}
	st.rec.onFlush = func() {
		select {
		case st.flushed <- struct{}{}:
		default:
		}
	}
	go func() {
		srv.httpHandler.ServeHTTP(st.rec, verifRequest("GET", "/mcp", nil, "Accept", "text/event-stream", "Mcp-Session-Id", id))
		close(st.done)
	}()
	return st
}

func c04Wait(ch chan struct{}) bool {
	select {
	case <-ch:
		return true
	case <-time.After(300 * time.Millisecond):
	}
	return false
}

func c04Ended(st *c04Stream) bool {
	select {
	case <-st.done:
		return true
	case <-time.After(300 * time.Millisecond):
	}
	return false
}

func c04SameSet(got []string, want map[string]bool) bool {
	if len(got) != len(want) {
		return false
	}
	for _, g := range got {
		if !want[g] {
			return false
		}
	}
	return true
}

func c04Step(srv *Server, m *c04Model, ids []string) {
	verb := []string{"POST", "GET", "DELETE", "PUT"}[vChoice("verb", 4)]
	var h string
	switch vChoice("header", 5) {
	case 0:
		h = ""
	case 1:
		h = ids[0]
	case 2:
		h = ids[1]
	case 3:
		h = ids[2]
	default:
		// any string that was never issued
		h = vString("unknownId", 34)
		vAssume(h != "" && !m.live[h] && !m.deleted[h] && h != ids[0] && h != ids[1] && h != ids[2])
	}
	bodyKind := 1
	if verb == "POST" {
		bodyKind = vChoice("body", 7)
	}
	body := [][]byte{[]byte(c04Init), []byte(`{"jsonrpc":"2.0","id":7,"method":"ping"}`),
		[]byte(`{"jsonrpc":"2.0","method":"notifications/initialized"}`), []byte(`{"jsonrpc":"2.0","method":"notifications/other"}`),
		[]byte(`{"jsonrpc":"2.0","id":3,"result":{}}`), nil, []byte(`{"jsonrpc":"2.0"}`)}[bodyKind]
	if bodyKind == 5 {
		body = vJSONInvalid()
	}
	isLive := h != "" && m.live[h]
	if verb == "GET" && isLive {
		old := m.stream[h]
		st := c04Open(srv, h)
		vAssert("get-live-headers-flushed", c04Wait(st.flushed))
		vAssert("get-live-200", st.rec.code() == 200)
		vAssert("get-live-echoes-id", st.rec.header.Get("Mcp-Session-Id") == h)
		if old != nil {
			vAssert("older-stream-closed", c04Ended(old))
		}
		m.stream[h] = st
		return
	}
	rec := newVerifRecorder()
	srv.httpHandler.ServeHTTP(rec, verifRequest(verb, "/mcp", body, "Accept", "application/json", "Mcp-Session-Id", h))
	code := rec.code()
	outID := rec.header.Get("Mcp-Session-Id")
	switch verb {
	case "PUT":
		vAssert("other-verb-405", code == 405)
		vAssert("other-verb-no-id", outID == "")
	case "GET":
		if h == "" {
			vAssert("get-without-id-400", code == 400)
		} else {
			vAssert("get-unknown-id-404", code == 404)
		}
		vAssert("refused-get-no-id", outID == "")
	case "DELETE":
		switch {
		case h == "":
			vAssert("delete-without-id-400", code == 400)
		case !isLive:
			vAssert("delete-unknown-id-404", code == 404)
		default:
			vAssert("delete-live-200", code == 200)
			if st := m.stream[h]; st != nil {
				vAssert("delete-ends-open-stream", c04Ended(st))
				delete(m.stream, h)
			}
			delete(m.live, h)
			delete(m.life, h)
			m.deleted[h] = true
		}
	default: // POST
		switch {
		case bodyKind == 5:
			vAssert("post-non-json-400", code == 400)
			vAssert("refused-post-no-id", outID == "")
		case h != "" && !isLive:
			vAssert("post-unknown-id-404", code == 404)
			vAssert("refused-post-no-id", outID == "")
		case h == "" && bodyKind == 0:
			vAssert("initialize-200", code == 200)
			vAssert("initialize-issues-visible-ascii-id", vAnd(len(outID) >= 32, strings.TrimFunc(outID, func(r rune) bool { return r > 0x20 && r < 0x7f }) == ""))
			vAssert("initialize-id-is-fresh", vAnd(!m.live[outID], !m.deleted[outID]))
			m.live[outID] = true
			m.life[outID] = 1
		case h == "":
			vAssert("post-without-id-400", code == 400)
			vAssert("refused-post-no-id", outID == "")
		case bodyKind == 6:
			vAssert("post-neither-400", code == 400)
		case bodyKind <= 1:
			vAssert("request-200", code == 200)
			vAssert("request-same-id", outID == h)
			if bodyKind == 0 {
				m.life[h] = 1
			}
		case bodyKind == 2:
			if m.life[h] == 1 {
				vAssert("initialized-202", code == 202)
				vAssert("notification-same-id", outID == h)
				m.life[h] = 2
			} else {
				vAssert("initialized-out-of-order-refused", code >= 400)
			}
		default: // other notification, response object
			vAssert("accepted-202", code == 202)
			vAssert("accepted-same-id", outID == h)
		}
	}
}

func H_C04_stateful() {
	vRandConcrete(true)
	postSSE := false
	twoStep := false
	if vTier() == 1 {
		// thorough: the one step is also taken with POST answers delivered as SSE. (Two steps were tried: the
		// string queries about never-issued ids make the run exceed an hour of solver time, so the second
		// step is left to the inductive reading of the one-step check.)
		postSSE = vBool("postSSE")
	}
	srv := NewServer("srv", "1.0", WithPostSSEEnabled(postSSE))
	m := &c04Model{live: map[string]bool{}, stream: map[string]*c04Stream{}, life: map[string]int{}, deleted: map[string]bool{}}
	ids := []string{"none-a", "none-b", "none-c"} // placeholders when the session does not exist
	mk := func() string {
		rec := newVerifRecorder()
		srv.httpHandler.ServeHTTP(rec, verifRequest("POST", "/mcp", []byte(c04Init), "Accept", "application/json"))
		id := rec.header.Get("Mcp-Session-Id")
		vAssume(rec.code() == 200 && id != "")
		m.live[id] = true
		m.life[id] = 1
		return id
	}
	maxLive := 3
	if twoStep {
		maxLive = 2
	}
	nLive := vChoice("liveSessions", maxLive)
	for i := 0; i < nLive; i++ {
		ids[i] = mk()
		if vBool("handshakeDone") {
			rec := newVerifRecorder()
			srv.httpHandler.ServeHTTP(rec, verifRequest("POST", "/mcp", []byte(`{"jsonrpc":"2.0","method":"notifications/initialized"}`), "Accept", "application/json", "Mcp-Session-Id", ids[i]))
			vAssume(rec.code() == 202)
			m.life[ids[i]] = 2
		}
		if vBool("streamOpen") {
			st := c04Open(srv, ids[i])
			vAssume(c04Wait(st.flushed))
			m.stream[ids[i]] = st
		}
	}
	if vBool("oneDeleted") {
		d := mk()
		rec := newVerifRecorder()
		srv.httpHandler.ServeHTTP(rec, verifRequest("DELETE", "/mcp", nil, "Mcp-Session-Id", d))
		vAssume(rec.code() == 200)
		delete(m.live, d)
		delete(m.life, d)
		m.deleted[d] = true
		ids[2] = d
	}
	got, err := srv.GetActiveSessions()
	vAssert("pre-live-set", vAnd(err == nil, c04SameSet(got, m.live)))
	steps := 1
	if twoStep {
		steps = 2
	}
	for s := 0; s < steps; s++ {
		c04Step(srv, m, ids)
		got, err := srv.GetActiveSessions()
		vAssert("live-set-matches-history", vAnd(err == nil, c04SameSet(got, m.live)))
	}
	vReach("end")
}

// H_C04_stateless: no session id is ever issued or required, listening streams get 405, and the answer
// to a request does not depend on an arbitrary earlier exchange.
// H_C04_delete_ends_replacement_stream: DELETE ends the session together with its open stream also when that
// stream replaced earlier ones.
func H_C04_delete_ends_replacement_stream() {
	vRandConcrete(true)
	srv := NewServer("srv", "1.0", WithPostSSEEnabled(false))
	a := c11Session(srv)
	vAssume(a != "")
	n := 1 + vChoice("replacements", 3)
	var sts []*c11Stream
	for i := 0; i < n; i++ {
		st := c11Open(srv, a, nil)
		vAssume(c11Wait(st.flushed))
		sts = append(sts, st)
		if vChoice("waitForOlder", 2) == 1 {
			vQuiesce()
		}
	}
	vQuiesce()
	for i := 0; i+1 < n; i++ {
		vAssert("replaced-stream-ended", c11Wait(sts[i].done))
	}
	rec := newVerifRecorder()
	srv.httpHandler.ServeHTTP(rec, verifRequest("DELETE", "/mcp", nil, "Mcp-Session-Id", a))
	vAssert("delete-accepted", rec.code() == 200)
	vAssert("delete-ends-the-open-stream", c11Wait(sts[n-1].done))
	vQuiesce()
	srv.httpHandler.getSSEConnectionsLock.RLock()
	left := len(srv.httpHandler.getSSEConnections)
	srv.httpHandler.getSSEConnectionsLock.RUnlock()
	vAssert("no-stream-entry-left", left == 0)
	live := srv.httpHandler.getActiveSessions()
	vAssert("session-gone", len(live) == 0)
	vReach("end")
}

func H_C04_stateless() {
	vRandConcrete(true)
	mk := func() *Server {
		return NewServer("srv", "1.0", WithStatelessMode(true), WithPostSSEEnabled(false), WithGetSSEEnabled(vBool("getSSE")))
	}
	srv := mk()
	h := ""
	if vBool("sendsId") {
		h = vString("anyId", 34)
	}
	// an arbitrary earlier exchange
	verb := []string{"POST", "GET", "DELETE"}[vChoice("verb", 3)]
	body := [][]byte{[]byte(c04Init), []byte(`{"jsonrpc":"2.0","id":7,"method":"ping"}`), []byte(`{"jsonrpc":"2.0","method":"notifications/initialized"}`)}[vChoice("body", 3)]
	rec := newVerifRecorder()
	srv.httpHandler.ServeHTTP(rec, verifRequest(verb, "/mcp", body, "Accept", "application/json", "Mcp-Session-Id", h))
	vAssert("stateless-never-issues-id", rec.header.Get("Mcp-Session-Id") == "")
	if verb == "GET" {
		vAssert("stateless-get-405", rec.code() == 405)
	}
	if verb == "POST" {
		vAssert("stateless-post-needs-no-id", rec.code() == 200 || rec.code() == 202)
	}
	// the answer to a request is the same as on a fresh server
	probe := []byte(`{"jsonrpc":"2.0","id":"p","method":"tools/list"}`)
	r1, r2 := newVerifRecorder(), newVerifRecorder()
	srv.httpHandler.ServeHTTP(r1, verifRequest("POST", "/mcp", probe, "Accept", "application/json"))
	vRandConcrete(true)
	fresh := NewServer("srv", "1.0", WithStatelessMode(true), WithPostSSEEnabled(false))
	fresh.httpHandler.ServeHTTP(r2, verifRequest("POST", "/mcp", probe, "Accept", "application/json"))
	f1, ok1 := verifParse(r1.body)
	f2, ok2 := verifParse(r2.body)
	vAssert("history-independent-answer", vAnd(vAnd(ok1, ok2), vAnd(r1.code() == r2.code(), verifDeepEqual(f1, f2))))
	vAssert("probe-no-id", r1.header.Get("Mcp-Session-Id") == "")
	_, err := srv.GetActiveSessions()
	vAssert("stateless-active-sessions-error", err == ErrStatelessMode)
	vReach("end")
}

// H_C04_sessions_disabled: POST needs no id; GET and DELETE are refused.
func H_C04_sessions_disabled() {
	srv := NewServer("srv", "1.0", WithoutSession(), WithPostSSEEnabled(false))
	h := ""
	if vBool("sendsId") {
		h = vString("anyId", 34)
	}
	verb := []string{"POST", "GET", "DELETE"}[vChoice("verb", 3)]
	rec := newVerifRecorder()
	srv.httpHandler.ServeHTTP(rec, verifRequest(verb, "/mcp", []byte(`{"jsonrpc":"2.0","id":7,"method":"ping"}`), "Accept", "application/json", "Mcp-Session-Id", h))
	vAssert("no-id-issued", rec.header.Get("Mcp-Session-Id") == "")
	if verb == "POST" {
		vAssert("post-served", rec.code() == 200)
	} else {
		vAssert("get-delete-refused", rec.code() >= 400)
	}
	vReach("end")
}

// H_C04_idgen: the generator turns 16 CSPRNG bytes into 32 lower-case hex characters, injectively.
func H_C04_idgen() {
	s1 := session.NewSession()
	s2 := session.NewSession()
	id1, id2 := s1.GetID(), s2.GetID()
	vAssert("entropy-from-crypto-rand", vUsedCryptoRand())
	vAssert("id-length-32", vAnd(len(id1) == 32, len(id2) == 32))
	ok := true
	for i := 0; i < len(id1); i++ {
		c := id1[i]
		ok = vAnd(ok, vOr(vAnd(c >= '0', c <= '9'), vAnd(c >= 'a', c <= 'f')))
	}
	vAssert("id-visible-ascii-hex", ok)
	// injective: equal ids only from equal CSPRNG bytes, so the id carries all 128 bits
	same := true
	for i := 0; i < 16; i++ {
		same = vAnd(same, vRandByte(i) == vRandByte(16+i))
	}
	vAssert("id-injective-in-the-random-bytes", vImplies(id1 == id2, same))
	vReach("end")
}
