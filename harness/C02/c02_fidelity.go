//verif:pkg .
//verif:use fakes_mcp
//verif:use fakes_client
//verif:bound tool results with 0..2 content items (thorough 0..3) of kinds {text, image, audio, embedded text resource, embedded blob resource} built with the public constructors, every string symbolic (printable ASCII <= 6, so empty strings and equal strings are covered), isError symbolic, structured content present or absent, handler error with a symbolic message; prompt results (0..2 messages, both roles); resource reads (text and blob contents); descriptors (name, description, annotations); the real client talks to the real Streamable server in-process (JSON answers and SSE answers)
//verif:assume strings are valid UTF-8 from the printable ASCII alphabet; multi-megabyte payloads, invalid UTF-8 and the openapi3 schema object's internals are outside the claim
package mcp

import (
	"context"
	"errors"
	"strings"
)

func c02Pair(sse bool) (*Server, *Client) {
	vRandConcrete(true)
	srv := NewServer("srv", "1.0", WithPostSSEEnabled(sse), WithGetSSEEnabled(false))
	c, err := NewClient("http://h.example/mcp", Implementation{Name: "c", Version: "1"},
		WithHTTPReqHandler(&verifBridge{handler: srv.httpHandler}), WithClientGetSSEEnabled(false))
	if err != nil {
		panic(err)
	}
	return srv, c
}

func c02Item(i int) Content {
	switch vChoice("kind", 5) {
	case 0:
		return NewTextContent(vString("text", 6))
	case 1:
		return NewImageContent(vString("data", 6), vString("mime", 6))
	case 2:
		return NewAudioContent(vString("data", 6), vString("mime", 6))
	case 3:
		return NewEmbeddedResource(TextResourceContents{URI: vString("uri", 6), MIMEType: vString("mime", 6), Text: vString("text", 6)})
	}
	return NewEmbeddedResource(BlobResourceContents{URI: vString("uri", 6), MIMEType: vString("mime", 6), Blob: vString("blob", 6)})
}

func c02SameResource(a, b ResourceContents) bool {
	switch x := a.(type) {
	case TextResourceContents:
		y, ok := b.(TextResourceContents)
		return ok && vAnd(x.URI == y.URI, vAnd(x.MIMEType == y.MIMEType, x.Text == y.Text))
	case BlobResourceContents:
		y, ok := b.(BlobResourceContents)
		return ok && vAnd(x.URI == y.URI, vAnd(x.MIMEType == y.MIMEType, x.Blob == y.Blob))
	}
	return false
}

func c02SameContent(a, b Content) bool {
	switch x := a.(type) {
	case TextContent:
		y, ok := b.(TextContent)
		return ok && x.Text == y.Text
	case ImageContent:
		y, ok := b.(ImageContent)
		return ok && vAnd(x.Data == y.Data, x.MimeType == y.MimeType)
	case AudioContent:
		y, ok := b.(AudioContent)
		return ok && vAnd(x.Data == y.Data, x.MimeType == y.MimeType)
	case EmbeddedResource:
		y, ok := b.(EmbeddedResource)
		return ok && c02SameResource(x.Resource, y.Resource)
	}
	return false
}

func H_C02_tool_results() {
	sse := vBool("sseAnswers")
	srv, c := c02Pair(sse)
	maxItems := 2
	if vTier() == 1 {
		maxItems = 3
	}
	n := vChoice("items", maxItems+1)
	want := &CallToolResult{Content: []Content{}}
	for i := 0; i < n; i++ {
		want.Content = append(want.Content, c02Item(i))
	}
	want.IsError = vBool("isError")
	if vBool("structured") {
		want.StructuredContent = map[string]interface{}{"k": vString("sv", 6), "n": float64(vIntRange("sn", 0, 1000))}
	}
	srv.RegisterTool(NewTool("t"), func(ctx context.Context, r *CallToolRequest) (*CallToolResult, error) { return want, nil })
	_, err := c.Initialize(context.Background(), &InitializeRequest{})
	vAssume(err == nil)
	got, cerr := c.CallTool(context.Background(), &CallToolRequest{Params: CallToolParams{Name: "t"}})
	vAssert("call-succeeds", cerr == nil)
	if cerr != nil {
		return
	}
	vAssert("same-number-of-items", len(got.Content) == len(want.Content))
	if len(got.Content) == len(want.Content) {
		for i := range want.Content {
			vAssert("item-equal", c02SameContent(want.Content[i], got.Content[i]))
		}
	}
	vAssert("error-flag-equal", got.IsError == want.IsError)
	if want.StructuredContent != nil {
		vAssert("structured-content-equal", vSameJSON(got.StructuredContent, want.StructuredContent))
	} else {
		vAssert("no-structured-content", got.StructuredContent == nil)
	}
	vReach("end")
}

func H_C02_handler_error() {
	srv, c := c02Pair(vBool("sseAnswers"))
	msg := vString("msg", 8)
	vAssume(msg != "")
	srv.RegisterTool(NewTool("t"), func(ctx context.Context, r *CallToolRequest) (*CallToolResult, error) { return nil, errors.New(msg) })
	_, err := c.Initialize(context.Background(), &InitializeRequest{})
	vAssume(err == nil)
	_, cerr := c.CallTool(context.Background(), &CallToolRequest{Params: CallToolParams{Name: "t"}})
	vAssert("handler-error-reaches-caller", cerr != nil)
	if cerr != nil {
		vAssert("error-carries-handler-message", strings.Contains(cerr.Error(), msg))
	}
	vReach("end")
}

func H_C02_prompts_resources() {
	srv, c := c02Pair(vBool("sseAnswers"))
	nm := vChoice("messages", 3)
	want := &GetPromptResult{Description: vString("desc", 6), Messages: []PromptMessage{}}
	for i := 0; i < nm; i++ {
		role := RoleUser
		if vBool("assistant") {
			role = RoleAssistant
		}
		want.Messages = append(want.Messages, PromptMessage{Role: role, Content: NewTextContent(vString("ptext", 6))})
	}
	srv.RegisterPrompt(&Prompt{Name: "p"}, func(ctx context.Context, r *GetPromptRequest) (*GetPromptResult, error) { return want, nil })
	var wantRes ResourceContents
	if vBool("blob") {
		wantRes = BlobResourceContents{URI: "file:///r", MIMEType: vString("rmime", 6), Blob: vString("rblob", 6)}
	} else {
		wantRes = TextResourceContents{URI: "file:///r", MIMEType: vString("rmime", 6), Text: vString("rtext", 6)}
	}
	srv.RegisterResource(&Resource{URI: "file:///r", Name: "r"}, func(ctx context.Context, r *ReadResourceRequest) (ResourceContents, error) { return wantRes, nil })
	_, err := c.Initialize(context.Background(), &InitializeRequest{})
	vAssume(err == nil)
	greq := &GetPromptRequest{}
	greq.Params.Name = "p"
	got, gerr := c.GetPrompt(context.Background(), greq)
	vAssert("get-prompt-succeeds", gerr == nil)
	if gerr == nil {
		vAssert("prompt-description-equal", got.Description == want.Description)
		vAssert("prompt-message-count", len(got.Messages) == len(want.Messages))
		if len(got.Messages) == len(want.Messages) {
			for i := range want.Messages {
				vAssert("prompt-role-equal", got.Messages[i].Role == want.Messages[i].Role)
				vAssert("prompt-content-equal", c02SameContent(want.Messages[i].Content, got.Messages[i].Content))
			}
		}
	}
	rreq := &ReadResourceRequest{}
	rreq.Params.URI = "file:///r"
	rgot, rerr := c.ReadResource(context.Background(), rreq)
	vAssert("read-resource-succeeds", rerr == nil)
	if rerr == nil {
		vAssert("one-contents-item", len(rgot.Contents) == 1)
		if len(rgot.Contents) == 1 {
			vAssert("resource-contents-equal", c02SameResource(wantRes, rgot.Contents[0]))
		}
	}
	vReach("end")
}

func H_C02_descriptors() {
	srv, c := c02Pair(false)
	name, desc := vString("name", 6), vString("desc", 6)
	vAssume(name != "")
	title := vString("title", 6)
	ro := vBool("readOnly")
	tool := NewTool(name, WithDescription(desc), WithToolAnnotations(&ToolAnnotations{Title: title, ReadOnlyHint: &ro}))
	srv.RegisterTool(tool, func(ctx context.Context, r *CallToolRequest) (*CallToolResult, error) { return NewTextResult("x"), nil })
	pname, pdesc := vString("pname", 6), vString("pdesc", 6)
	vAssume(pname != "")
	srv.RegisterPrompt(&Prompt{Name: pname, Description: pdesc, Arguments: []PromptArgument{{Name: "a", Required: vBool("argRequired")}}}, nil)
	rname := vString("rname", 6)
	srv.RegisterResource(&Resource{URI: "file:///r", Name: rname, MimeType: vString("rmime", 6)}, nil)
	_, err := c.Initialize(context.Background(), &InitializeRequest{})
	vAssume(err == nil)
	lt, terr := c.ListTools(context.Background(), &ListToolsRequest{})
	vAssert("list-tools-succeeds", vAnd(terr == nil, lt != nil && len(lt.Tools) == 1))
	if terr == nil && len(lt.Tools) == 1 {
		g := lt.Tools[0]
		vAssert("tool-name-equal", g.Name == name)
		vAssert("tool-description-equal", g.Description == desc)
		vAssert("tool-annotations-kept", g.Annotations != nil)
		if g.Annotations != nil {
			vAssert("tool-annotation-title", g.Annotations.Title == title)
			vAssert("tool-annotation-readonly", vAnd(g.Annotations.ReadOnlyHint != nil, g.Annotations.ReadOnlyHint != nil && *g.Annotations.ReadOnlyHint == ro))
		}
	}
	lp, perr := c.ListPrompts(context.Background(), &ListPromptsRequest{})
	vAssert("list-prompts-succeeds", vAnd(perr == nil, lp != nil && len(lp.Prompts) == 1))
	if perr == nil && len(lp.Prompts) == 1 {
		vAssert("prompt-descriptor-equal", vAnd(lp.Prompts[0].Name == pname, lp.Prompts[0].Description == pdesc))
		vAssert("prompt-arguments-equal", vAnd(len(lp.Prompts[0].Arguments) == 1, len(lp.Prompts[0].Arguments) == 1 && lp.Prompts[0].Arguments[0].Name == "a"))
	}
	lr, rerr := c.ListResources(context.Background(), &ListResourcesRequest{})
	vAssert("list-resources-succeeds", vAnd(rerr == nil, lr != nil && len(lr.Resources) == 1))
	if rerr == nil && len(lr.Resources) == 1 {
		vAssert("resource-descriptor-equal", vAnd(lr.Resources[0].Name == rname, lr.Resources[0].URI == "file:///r"))
	}
	vReach("end")
}

// H_C02_descriptors_many: several descriptors in one list answer - every listed tool carries its own
// annotations (title and each hint, set or unset), every prompt and resource its own description,
// whatever the neighbouring entries hold.
func H_C02_descriptors_many() {
	srv, c := c02Pair(false)
	names := []string{"a", "b"}
	n := 2
	type want struct {
		has         bool
		title       string
		hasRO, ro   bool
		hasDe, de   bool
		hasID, idem bool
		hasOW, ow   bool
		desc        string
	}
	wants := make([]want, n)
	for i := 0; i < n; i++ {
		w := want{has: i == 0 || vBool("annotated"), desc: vString("desc", 4)}
		opts := []ToolOption{WithDescription(w.desc)}
		if w.has {
			w.title = vString("title", 4)
			w.hasRO, w.ro = vBool("hasRO"), vBool("ro")
			w.hasDe, w.de = i == 0, vBool("de")
			w.hasID, w.idem = i == 1, vBool("idem")
			w.hasOW, w.ow = i == 1, vBool("ow")
			a := &ToolAnnotations{Title: w.title}
			if w.hasRO {
				v := w.ro
				a.ReadOnlyHint = &v
			}
			if w.hasDe {
				v := w.de
				a.DestructiveHint = &v
			}
			if w.hasID {
				v := w.idem
				a.IdempotentHint = &v
			}
			if w.hasOW {
				v := w.ow
				a.OpenWorldHint = &v
			}
			opts = append(opts, WithToolAnnotations(a))
		}
		wants[i] = w
		srv.RegisterTool(NewTool(names[i], opts...), func(ctx context.Context, r *CallToolRequest) (*CallToolResult, error) { return NewTextResult("x"), nil })
	}
	pd := []string{vString("pdesc0", 4), vString("pdesc1", 4)}
	srv.RegisterPrompt(&Prompt{Name: "p0", Description: pd[0]}, nil)
	srv.RegisterPrompt(&Prompt{Name: "p1", Description: pd[1], Arguments: []PromptArgument{{Name: "x", Required: true}}}, nil)
	rd := []string{vString("rdesc0", 4), vString("rdesc1", 4)}
	srv.RegisterResource(&Resource{URI: "file:///r0", Name: "r0", Description: rd[0]}, nil)
	srv.RegisterResource(&Resource{URI: "file:///r1", Name: "r1", Description: rd[1]}, nil)
	_, err := c.Initialize(context.Background(), &InitializeRequest{})
	vAssume(err == nil)
	lt, terr := c.ListTools(context.Background(), &ListToolsRequest{})
	vAssert("list-tools-succeeds", vAnd(terr == nil, lt != nil && len(lt.Tools) == n))
	if terr == nil && lt != nil && len(lt.Tools) == n {
		for i := 0; i < n; i++ {
			found := false
			for _, g := range lt.Tools {
				if g.Name != names[i] {
					continue
				}
				found = true
				w := wants[i]
				vAssert("tool-description-its-own", g.Description == w.desc)
				if !w.has {
					continue
				}
				vAssert("tool-annotations-kept", g.Annotations != nil)
				if g.Annotations == nil {
					continue
				}
				a := g.Annotations
				vAssert("tool-annotation-title-its-own", a.Title == w.title)
				vAssert("tool-readonly-its-own", vAnd((a.ReadOnlyHint != nil) == w.hasRO, a.ReadOnlyHint == nil || *a.ReadOnlyHint == w.ro))
				vAssert("tool-destructive-its-own", vAnd((a.DestructiveHint != nil) == w.hasDe, a.DestructiveHint == nil || *a.DestructiveHint == w.de))
				vAssert("tool-idempotent-its-own", vAnd((a.IdempotentHint != nil) == w.hasID, a.IdempotentHint == nil || *a.IdempotentHint == w.idem))
				vAssert("tool-openworld-its-own", vAnd((a.OpenWorldHint != nil) == w.hasOW, a.OpenWorldHint == nil || *a.OpenWorldHint == w.ow))
			}
			vAssert("tool-listed", found)
		}
	}
	lp, perr := c.ListPrompts(context.Background(), &ListPromptsRequest{})
	vAssert("list-prompts-succeeds", vAnd(perr == nil, lp != nil && len(lp.Prompts) == 2))
	if perr == nil && lp != nil && len(lp.Prompts) == 2 {
		for _, g := range lp.Prompts {
			if g.Name == "p0" {
				vAssert("prompt-its-own", vAnd(g.Description == pd[0], len(g.Arguments) == 0))
			} else {
				vAssert("prompt-its-own", vAnd(g.Name == "p1", vAnd(g.Description == pd[1], len(g.Arguments) == 1)))
			}
		}
	}
	lr, rerr := c.ListResources(context.Background(), &ListResourcesRequest{})
	vAssert("list-resources-succeeds", vAnd(rerr == nil, lr != nil && len(lr.Resources) == 2))
	if rerr == nil && lr != nil && len(lr.Resources) == 2 {
		for _, g := range lr.Resources {
			if g.Name == "r0" {
				vAssert("resource-its-own", vAnd(g.URI == "file:///r0", g.Description == rd[0]))
			} else {
				vAssert("resource-its-own", vAnd(g.Name == "r1", vAnd(g.URI == "file:///r1", g.Description == rd[1])))
			}
		}
	}
	vReach("end")
}
