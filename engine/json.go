package main

// encoding/json modelled at the JSON value tree level (DESIGN 2.7) with lazy symbolic
// input documents (DESIGN 2.8).

import (
	"bytes"
	"encoding/json"
	"fmt"
	"go/types"
	"reflect"
	"sort"
	"strconv"
	"strings"
	"sync"

	"golang.org/x/tools/go/ssa"
)

type JKind int

const (
	JNull JKind = iota
	JBool
	JNum
	JStr
	JArr
	JObj
	JLazy    // not yet inspected symbolic node
	JInvalid // not JSON at all (syntax error)
	JOpaque  // an encoded value the model does not look into (e.g. openapi3 schema)
)

type JNode struct {
	kind    JKind
	b       *Term   // JBool
	num     *Term   // JNum: SInt (integer literal), BV (integer literal, signedness in numSigned) or SF64
	numSigned bool
	isFloatLit bool // literal has fraction/exponent (lazy non-integer)
	s       Value   // JStr: *Term
	arr     []*JNode
	keys    []*Term // JObj member names (SStr terms)
	vals    []*JNode
	// lazy documents
	lz      *lazyInfo
	opaque  Value
	otype   types.Type
	closed  bool // lazy object: key set fixed
	lenVar  *Term
	extra   *JNode
}

type lazyInfo struct {
	name     string
	depth    int
	absent   map[string]bool // keys decided absent
	nonNull  bool            // decided: not null
	excluded map[JKind]bool  // kinds ruled out by failed type assertions
}

func jNull() *JNode              { return &JNode{kind: JNull} }
func jStr(s *Term) *JNode        { return &JNode{kind: JStr, s: s} }
func jBoolN(b *Term) *JNode      { return &JNode{kind: JBool, b: b} }
func (n *JNode) member(k string) *JNode {
	for i, key := range n.keys {
		if c, ok := key.StrVal(); ok && c == k {
			return n.vals[i]
		}
	}
	return nil
}

// ---------------------------------------------------------------------------------------
// concrete text -> tree

func parseJSONText(s string) (*JNode, error) {
	dec := json.NewDecoder(strings.NewReader(s))
	dec.UseNumber()
	var v interface{}
	if err := dec.Decode(&v); err != nil {
		return nil, err
	}
	// trailing garbage?
	var extra interface{}
	if err := dec.Decode(&extra); err == nil || !strings.Contains(err.Error(), "EOF") {
		if err == nil {
			return nil, fmt.Errorf("invalid character after top-level value")
		}
		return nil, err
	}
	return goToJNode(v, s), nil
}

func goToJNode(v interface{}, src string) *JNode {
	switch x := v.(type) {
	case nil:
		return jNull()
	case bool:
		return jBoolN(mkBool(x))
	case string:
		return jStr(mkStr(x))
	case json.Number:
		if i, err := strconv.ParseInt(string(x), 10, 64); err == nil {
			return &JNode{kind: JNum, num: mkInt(i)}
		}
		f, _ := x.Float64()
		return &JNode{kind: JNum, num: mkF64(f), isFloatLit: true}
	case []interface{}:
		n := &JNode{kind: JArr}
		for _, e := range x {
			n.arr = append(n.arr, goToJNode(e, ""))
		}
		return n
	case map[string]interface{}:
		n := &JNode{kind: JObj, closed: true}
		keys := make([]string, 0, len(x))
		for k := range x {
			keys = append(keys, k)
		}
		sort.Strings(keys)
		for _, k := range keys {
			n.keys = append(n.keys, mkStr(k))
			n.vals = append(n.vals, goToJNode(x[k], ""))
		}
		return n
	}
	panic("goToJNode")
}

// ---------------------------------------------------------------------------------------
// struct field tables (encoding/json typeFields, from go/types; tags from current source)

type jfield struct {
	name      string
	index     []int
	typ       types.Type
	omitEmpty bool
	quoted    bool
	tagged    bool
}

var fieldCache = map[string][]jfield{}
var fieldCacheMu sync.Mutex

func isExportedName(n string) bool { return n != "" && n[0] >= 'A' && n[0] <= 'Z' }

func jsonFields(t types.Type) []jfield {
	key := t.String()
	fieldCacheMu.Lock()
	if f, ok := fieldCache[key]; ok {
		fieldCacheMu.Unlock()
		return f
	}
	fieldCacheMu.Unlock()
	type cand struct {
		jfield
		depth int
	}
	var all []cand
	type qent struct {
		t     types.Type
		index []int
		depth int
	}
	queue := []qent{{t, nil, 0}}
	visited := map[string]bool{}
	for len(queue) > 0 {
		q := queue[0]
		queue = queue[1:]
		st, ok := q.t.Underlying().(*types.Struct)
		if !ok {
			continue
		}
		if visited[q.t.String()] && q.depth > 0 {
			continue
		}
		visited[q.t.String()] = true
		for i := 0; i < st.NumFields(); i++ {
			f := st.Field(i)
			tag := reflect.StructTag(st.Tag(i)).Get("json")
			if tag == "-" {
				continue
			}
			ft := f.Type()
			if f.Embedded() {
				et := ft
				if p, ok := et.Underlying().(*types.Pointer); ok {
					et = p.Elem()
				}
				if !f.Exported() {
					if _, isStruct := et.Underlying().(*types.Struct); !isStruct {
						continue
					}
				}
			} else if !f.Exported() {
				continue
			}
			name, opts, _ := strings.Cut(tag, ",")
			idx := append(append([]int{}, q.index...), i)
			et := ft
			if p, ok := et.Underlying().(*types.Pointer); ok {
				et = p.Elem()
			}
			_, isStruct := et.Underlying().(*types.Struct)
			if name != "" || !f.Embedded() || !isStruct {
				tagged := name != ""
				if name == "" {
					name = f.Name()
				}
				jf := jfield{name: name, index: idx, typ: ft, tagged: tagged}
				for _, o := range strings.Split(opts, ",") {
					switch o {
					case "omitempty":
						jf.omitEmpty = true
					case "string":
						jf.quoted = true
					}
				}
				all = append(all, cand{jf, q.depth})
				continue
			}
			// embedded struct without name: descend
			queue = append(queue, qent{et, idx, q.depth + 1})
		}
	}
	// dominance: per name keep the shallowest; tagged wins among equals; ambiguity drops
	byName := map[string][]cand{}
	var order []string
	for _, c := range all {
		if _, ok := byName[c.name]; !ok {
			order = append(order, c.name)
		}
		byName[c.name] = append(byName[c.name], c)
	}
	var out []jfield
	for _, n := range order {
		cs := byName[n]
		min := cs[0].depth
		for _, c := range cs {
			if c.depth < min {
				min = c.depth
			}
		}
		var best []cand
		for _, c := range cs {
			if c.depth == min {
				best = append(best, c)
			}
		}
		if len(best) > 1 {
			var tg []cand
			for _, c := range best {
				if c.tagged {
					tg = append(tg, c)
				}
			}
			if len(tg) == 1 {
				best = tg
			} else {
				continue
			}
		}
		out = append(out, best[0].jfield)
	}
	fieldCacheMu.Lock()
	fieldCache[key] = out
	fieldCacheMu.Unlock()
	return out
}

// ---------------------------------------------------------------------------------------
// Marshal

type jsonErr struct {
	kind string // UnsupportedValue, UnsupportedType, Marshaler
	msg  string
	err  Iface
}

func (ex *Exec) hasMethod(t types.Type, name string) *ssa.Function {
	m := ex.findMethod(t, name)
	if m != nil && inModule(m) {
		return m
	}
	if m != nil {
		// wrapper for promoted method of a module type
		return m
	}
	return nil
}

func isRawMessage(t types.Type) bool {
	if n, ok := t.(*types.Named); ok {
		return n.Obj().Name() == "RawMessage" && n.Obj().Pkg() != nil && n.Obj().Pkg().Path() == "encoding/json"
	}
	return false
}

func typePkgPath(t types.Type) string {
	if p, ok := t.(*types.Pointer); ok {
		t = p.Elem()
	}
	if n, ok := t.(*types.Named); ok && n.Obj().Pkg() != nil {
		return n.Obj().Pkg().Path()
	}
	return ""
}

// jsonMarshal encodes v (of static type t) into a tree. addr is non-nil when v is addressable.
func (ex *Exec) jsonMarshal(fr *Frame, site ssa.Instruction, v Value, t types.Type, addr *Value) (*JNode, *jsonErr) {
	t = types.Unalias(t)
	if t == lazyIfaceType {
		return v.(*JNode), nil
	}
	// interface: encode the dynamic value
	if _, ok := t.Underlying().(*types.Interface); ok {
		i := v.(Iface)
		if i.t == nil {
			return jNull(), nil
		}
		if isLazyIface(i) {
			return i.v.(*JNode), nil
		}
		return ex.jsonMarshal(fr, site, i.v, i.t, nil)
	}
	if isRawMessage(t) {
		switch b := v.(type) {
		case Slice:
			if b.nil || b.n == 0 {
				return jNull(), nil
			}
		case ByteStr:
			if n, ok := ropeJSON(b.s); ok {
				return n, nil
			}
			if c, ok := b.s.(*Term); ok {
				if s, ok := c.StrVal(); ok {
					n, err := parseJSONText(s)
					if err != nil {
						return nil, &jsonErr{kind: "Marshaler", msg: "json: error calling MarshalJSON for type json.RawMessage: " + err.Error()}
					}
					return n, nil
				}
			}
		}
		panic(unsupported("RawMessage content " + valString(v)))
	}
	if pk := typePkgPath(t); strings.HasPrefix(pk, "github.com/getkin/kin-openapi") {
		if p, ok := v.(*Value); ok && p == nil {
			return jNull(), nil
		}
		return &JNode{kind: JOpaque, opaque: v, otype: t}, nil
	}
	// Marshaler on value or pointer receiver
	if _, isPtr := t.Underlying().(*types.Pointer); isPtr {
		if p, ok := v.(*Value); ok && p == nil {
			return jNull(), nil
		}
	}
	if m := ex.findMethod(t, "MarshalJSON"); m != nil {
		return ex.callMarshaler(fr, site, m, v, t)
	}
	if addr != nil {
		if m := ex.findMethod(types.NewPointer(t), "MarshalJSON"); m != nil {
			return ex.callMarshaler(fr, site, m, addr, types.NewPointer(t))
		}
	}
	if m := ex.findMethod(t, "MarshalText"); m != nil && typePkgPath(t) != "time" {
		panic(unsupported("MarshalText on " + t.String()))
	}
	switch u := t.Underlying().(type) {
	case *types.Pointer:
		p := v.(*Value)
		return ex.jsonMarshal(fr, site, *p, u.Elem(), p)
	case *types.Basic:
		tm := v.(*Term)
		switch {
		case tm.Sort == SBool:
			return jBoolN(tm), nil
		case tm.Sort == SStr:
			return jStr(tm), nil
		case tm.Sort == SF64 || tm.Sort == SF32:
			if tm.Sort == SF32 {
				panic(unsupported("marshal float32"))
			}
			if tm.IntOf != nil {
				// an integral float64 within +-2^53: finite, printed as the integer
				return &JNode{kind: JNum, num: tm.IntOf}, nil
			}
			bad := tOr(tFIsNaN(tm), newTermFold("fp.isInfinite", tm))
			if ex.branch(bad, site) {
				return nil, &jsonErr{kind: "UnsupportedValue", msg: "json: unsupported value: NaN or Inf"}
			}
			return &JNode{kind: JNum, num: tm, isFloatLit: tm.IntOf == nil}, nil
		default:
			return &JNode{kind: JNum, num: tm, numSigned: isSigned(t)}, nil
		}
	case *types.Struct:
		if typePkgPath(t) == "time" {
			return jStr(ex.fresh("timejson", SStr)), nil
		}
		st := v.(Struct)
		n := &JNode{kind: JObj, closed: true}
		for _, f := range jsonFields(t) {
			fv, faddr, ok := fieldByIndex(st, addr, t, f.index)
			if !ok {
				continue // nil embedded pointer
			}
			if f.quoted {
				panic(unsupported("json ,string option"))
			}
			if f.omitEmpty {
				if ex.branch(ex.isEmptyValue(fv, f.typ), site) {
					continue
				}
			}
			c, e := ex.jsonMarshal(fr, site, fv, f.typ, faddr)
			if e != nil {
				return nil, e
			}
			n.keys = append(n.keys, mkStr(f.name))
			n.vals = append(n.vals, c)
		}
		return n, nil
	case *types.Map:
		m := v.(*MapObj)
		if m == nil {
			return jNull(), nil
		}
		if m.lazy != nil {
			return m.lazy, nil
		}
		n := &JNode{kind: JObj, closed: true}
		for _, e := range m.entries {
			kt, ok := e.k.(*Term)
			if !ok || kt.Sort != SStr {
				if ok && kt.Sort.isBV() {
					kt = ex.fmtInt(kt, isSigned(u.Key())).(*Term)
				} else {
					panic(unsupported("marshal map with key " + valString(e.k)))
				}
			}
			c, er := ex.jsonMarshal(fr, site, *e.v, u.Elem(), nil)
			if er != nil {
				return nil, er
			}
			n.keys = append(n.keys, kt)
			n.vals = append(n.vals, c)
		}
		return n, nil
	case *types.Slice:
		switch s := v.(type) {
		case Slice:
			if s.nil {
				return jNull(), nil
			}
			if isByteSlice(t) {
				if s.n == 0 {
					return jStr(mkStr("")), nil
				}
				return jStr(ex.fresh("base64", SStr)), nil
			}
			n := &JNode{kind: JArr}
			for i := 0; i < s.n; i++ {
				c, e := ex.jsonMarshal(fr, site, s.a[i], u.Elem(), &s.a[i])
				if e != nil {
					return nil, e
				}
				n.arr = append(n.arr, c)
			}
			return n, nil
		case ByteStr:
			return jStr(ex.fresh("base64", SStr)), nil
		}
	case *types.Array:
		a := v.(Array)
		n := &JNode{kind: JArr}
		for i := range a {
			c, e := ex.jsonMarshal(fr, site, a[i], u.Elem(), nil)
			if e != nil {
				return nil, e
			}
			n.arr = append(n.arr, c)
		}
		return n, nil
	case *types.Chan, *types.Signature:
		return nil, &jsonErr{kind: "UnsupportedType", msg: "json: unsupported type: " + t.String()}
	}
	panic(unsupported(fmt.Sprintf("marshal %s (%T)", t, v)))
}

func newTermFold(op string, a *Term) *Term {
	if f, ok := a.F64Val(); ok && op == "fp.isInfinite" {
		return mkBool(f > 1.797693134862315708145274237317043567981e+308 || f < -1.797693134862315708145274237317043567981e+308)
	}
	return newTerm(op, SBool, a)
}

func (ex *Exec) callMarshaler(fr *Frame, site ssa.Instruction, m *ssa.Function, recv Value, t types.Type) (*JNode, *jsonErr) {
	r := ex.call(fr, site, m, []Value{recv}, false).(Tuple)
	if e := r[1].(Iface); e.t != nil {
		return nil, &jsonErr{kind: "Marshaler", msg: "json: error calling MarshalJSON for type " + t.String(), err: e}
	}
	switch b := r[0].(type) {
	case ByteStr:
		if n, ok := ropeJSON(b.s); ok {
			return n, nil
		}
		if c, ok := b.s.(*Term); ok {
			if s, ok := c.StrVal(); ok {
				n, err := parseJSONText(s)
				if err != nil {
					return nil, &jsonErr{kind: "Marshaler", msg: "json: error calling MarshalJSON for type " + t.String() + ": " + err.Error()}
				}
				return n, nil
			}
		}
	}
	panic(unsupported("MarshalJSON result " + valString(r[0])))
}

func fieldByIndex(st Struct, addr *Value, t types.Type, index []int) (Value, *Value, bool) {
	var cur Value = st
	var curAddr *Value = addr
	ct := t
	for _, i := range index {
		s, ok := cur.(Struct)
		if !ok {
			// embedded pointer
			p := cur.(*Value)
			if p == nil {
				return nil, nil, false
			}
			s = (*p).(Struct)
			ct = ct.Underlying().(*types.Pointer).Elem()
		}
		curAddr = &s[i]
		cur = s[i]
		ct = ct.Underlying().(*types.Struct).Field(i).Type()
	}
	if addr == nil {
		curAddr = nil
	}
	return cur, curAddr, true
}

func (ex *Exec) isEmptyValue(v Value, t types.Type) *Term {
	switch x := v.(type) {
	case *Term:
		switch {
		case x.Sort == SBool:
			return tNot(x)
		case x.Sort == SStr:
			return tEq(x, mkStr(""))
		case x.Sort == SInt:
			return tEq(x, mkInt(0))
		case x.Sort.isBV():
			return tEq(x, mkBV(x.Sort, 0))
		case x.Sort == SF64:
			return tEq(x, mkF64(0))
		}
	case *Value:
		return mkBool(x == nil)
	case Iface:
		return mkBool(x.t == nil)
	case Slice:
		return mkBool(x.n == 0)
	case ByteStr:
		if r, ok := x.s.(*Rope); ok {
			_ = r
			return tFalse
		}
		return tEq(x.s.(*Term), mkStr(""))
	case *MapObj:
		if x == nil {
			return tTrue
		}
		if x.lazy != nil {
			ex.lazyMapClose(x, nil)
		}
		return mkBool(len(x.entries) == 0)
	case Struct:
		return tFalse
	case Array:
		return mkBool(len(x) == 0)
	}
	panic(unsupported(fmt.Sprintf("isEmptyValue %T", v)))
}

func (ex *Exec) jsonErrValue(e *jsonErr) Iface {
	if e.err.t != nil {
		t := ex.eng.lookupType("encoding/json", "MarshalerError")
		// {Type reflect.Type; Err error; sourceFunc string}
		return Iface{t: types.NewPointer(t), v: newPtr(Struct{Iface{}, e.err, mkStr("MarshalJSON")})}
	}
	return ex.makeError(mkStr(e.msg))
}

// ---------------------------------------------------------------------------------------
// Unmarshal

type decodeState struct {
	firstErr *Iface
}

func (ex *Exec) typeErr(d *decodeState, what string, t types.Type) {
	if d.firstErr == nil {
		e := ex.makeError(mkStr("json: cannot unmarshal " + what + " into Go value of type " + t.String()))
		d.firstErr = &e
	}
}

func kindName(k JKind) string {
	switch k {
	case JNull:
		return "null"
	case JBool:
		return "bool"
	case JNum:
		return "number"
	case JStr:
		return "string"
	case JArr:
		return "array"
	case JObj:
		return "object"
	}
	return "value"
}

// jsonUnmarshal decodes node into *target of type t.
func (ex *Exec) jsonUnmarshal(fr *Frame, site ssa.Instruction, d *decodeState, n *JNode, target *Value, t types.Type) {
	t = types.Unalias(t)
	// custom unmarshaler (pointer receiver)
	if !isRawMessage(t) {
		if m := ex.findMethod(types.NewPointer(t), "UnmarshalJSON"); m != nil {
			if strings.HasPrefix(typePkgPath(t), "github.com/getkin/kin-openapi") {
				ex.forceKind(n, site, -1)
				if n.kind == JNull {
					return
				}
				*target = ex.opaqueDecode(n, t)
				return
			}
			ex.forceKind(n, site, -1)
			if n.kind == JNull {
				if _, isPtr := t.Underlying().(*types.Pointer); isPtr {
					// null into a pointer sets it to nil without calling the Unmarshaler
					*target = nilPtr
					return
				}
				// an addressable value of a named non-pointer type whose pointer implements Unmarshaler:
				// encoding/json calls UnmarshalJSON([]byte("null")) (decode.go indirect: the address it
				// takes is not settable, so the decodingNull shortcut does not apply)
			}
			r := ex.call(fr, site, m, []Value{target, ByteStr{s: &Rope{parts: []interface{}{n}}}}, false)
			if e := r.(Iface); e.t != nil && d.firstErr == nil {
				// errors from Unmarshalers abort decoding
				d.firstErr = &e
				panic(decodeAbort{})
			}
			return
		}
	}
	if isRawMessage(t) {
		*target = ByteStr{s: &Rope{parts: []interface{}{n}}}
		return
	}
	switch u := t.Underlying().(type) {
	case *types.Pointer:
		ex.forceKind(n, site, -1)
		if n.kind == JNull {
			*target = nilPtr
			return
		}
		p := (*target).(*Value)
		if p == nil {
			p = newPtr(zero(u.Elem()))
			*target = p
		}
		ex.jsonUnmarshal(fr, site, d, n, p, u.Elem())
		return
	case *types.Interface:
		if u.NumMethods() == 0 {
			*target = ex.lazyIfaceOf(fr, site, n)
			return
		}
		ex.forceKind(n, site, -1)
		if n.kind == JNull {
			*target = Iface{}
			return
		}
		ex.typeErr(d, kindName(n.kind), t)
		return
	}
	// kind the target wants
	want := JNull
	switch u := t.Underlying().(type) {
	case *types.Basic:
		switch {
		case u.Info()&types.IsBoolean != 0:
			want = JBool
		case u.Info()&types.IsString != 0:
			want = JStr
		case u.Info()&types.IsNumeric != 0:
			want = JNum
		}
	case *types.Struct, *types.Map:
		want = JObj
	case *types.Slice:
		want = JArr
		if isByteSlice(t) {
			want = JStr
		}
	case *types.Array:
		want = JArr
	}
	ex.forceKind(n, site, want)
	if n.kind == JNull {
		// null: no-op for non-pointer kinds, nil for map/slice
		switch t.Underlying().(type) {
		case *types.Map:
			*target = (*MapObj)(nil)
		case *types.Slice:
			*target = Slice{nil: true}
		}
		return
	}
	if n.kind == JOpaque {
		*target = ex.opaqueDecode(n, t)
		return
	}
	if n.kind != want {
		ex.typeErr(d, kindName(n.kind), t)
		return
	}
	switch u := t.Underlying().(type) {
	case *types.Basic:
		switch want {
		case JBool:
			*target = n.b
		case JStr:
			*target = n.s
		case JNum:
			*target = ex.numToGo(d, n, u, t, site)
		}
	case *types.Struct:
		st := (*target).(Struct)
		fields := jsonFields(t)
		ex.decodeObject(fr, site, d, n, func(key string, exact bool) (*Value, types.Type, bool) {
			for _, f := range fields {
				if f.name == key || (!exact && strings.EqualFold(f.name, key)) {
					if !exact && f.name != key {
						// prefer exact match if one exists
						for _, g := range fields {
							if g.name == key {
								f = g
							}
						}
					}
					p := fieldAddrByIndex(st, t, f.index)
					if p == nil {
						return nil, nil, false
					}
					return p, f.typ, true
				}
			}
			return nil, nil, false
		}, func() []string {
			var ks []string
			for _, f := range fields {
				ks = append(ks, f.name)
			}
			return ks
		}())
	case *types.Map:
		m, _ := (*target).(*MapObj)
		if m == nil {
			m = ex.newMap(u.Key(), u.Elem())
			*target = m
		}
		if !isString(u.Key()) {
			panic(unsupported("unmarshal into map with non-string key"))
		}
		ex.objForEach(n, site, func(k *Term, c *JNode) {
			slot := newPtr(zero(u.Elem()))
			if e := ex.mapFind(m, k, site); e != nil {
				*slot = copyVal(*e.v)
			}
			ex.jsonUnmarshal(fr, site, d, c, slot, u.Elem())
			ex.mapStore(fr, site, m, k, *slot)
		})
	case *types.Slice:
		if want == JStr {
			// base64 into []byte
			*target = ByteStr{s: ex.fresh("b64dec", SStr)}
			return
		}
		ex.forceArr(n, site)
		a := make([]Value, len(n.arr))
		for i, c := range n.arr {
			a[i] = zero(u.Elem())
			ex.jsonUnmarshal(fr, site, d, c, &a[i], u.Elem())
		}
		*target = Slice{a: a, n: len(a)}
	case *types.Array:
		ex.forceArr(n, site)
		arr := (*target).(Array)
		for i := range arr {
			if i < len(n.arr) {
				ex.jsonUnmarshal(fr, site, d, n.arr[i], &arr[i], u.Elem())
			} else {
				arr[i] = zero(u.Elem())
			}
		}
	default:
		panic(unsupported("unmarshal into " + t.String()))
	}
}

type decodeAbort struct{}

func fieldAddrByIndex(st Struct, t types.Type, index []int) *Value {
	var s Struct = st
	ct := t
	for k, i := range index {
		ft := ct.Underlying().(*types.Struct).Field(i).Type()
		if k == len(index)-1 {
			return &s[i]
		}
		switch x := s[i].(type) {
		case Struct:
			s = x
			ct = ft
		case *Value:
			if x == nil {
				et := ft.Underlying().(*types.Pointer).Elem()
				x = newPtr(zero(et))
				s[i] = x
			}
			s = (*x).(Struct)
			ct = ft.Underlying().(*types.Pointer).Elem()
		}
	}
	return nil
}

// numToGo converts a JSON number node to a Go numeric of basic type u.
func (ex *Exec) numToGo(d *decodeState, n *JNode, u *types.Basic, t types.Type, site ssa.Instruction) Value {
	num := n.num
	if u.Info()&types.IsFloat != 0 {
		switch {
		case num.Sort == SF64:
			return num
		case num.Sort == SInt:
			return tIntToF64(num)
		default:
			return tBVToF64(num, n.numSigned)
		}
	}
	// integer target
	if n.isFloatLit {
		ex.typeErr(d, "number", t)
		return zero(t)
	}
	ds, _ := sortOfBasic(u)
	switch {
	case num.Sort == SInt:
		// range check against the target type
		lo, hi := intRange(u)
		in := tAnd(tIntCmp(">=", num, mkInt(lo)), tIntCmp("<=", num, mkInt(hi)))
		if !ex.branch(in, site) {
			ex.typeErr(d, "number", t)
			return zero(t)
		}
		if c, ok := num.IntVal(); ok {
			return mkBV(ds, uint64(c))
		}
		return num // Int-backed
	case num.Sort.isBV():
		return tBVResize(num, ds, n.numSigned)
	case num.Sort == SF64:
		if f, ok := num.F64Val(); ok && f == float64(int64(f)) {
			return mkBV(ds, uint64(int64(f)))
		}
		if num.IntOf != nil {
			return num.IntOf
		}
	}
	panic(unsupported("json number into integer: " + valString(num)))
}

func intRange(u *types.Basic) (int64, int64) {
	switch u.Kind() {
	case types.Int8:
		return -128, 127
	case types.Int16:
		return -32768, 32767
	case types.Int32:
		return -1 << 31, 1<<31 - 1
	case types.Uint8:
		return 0, 255
	case types.Uint16:
		return 0, 65535
	case types.Uint32:
		return 0, 1<<32 - 1
	case types.Uint, types.Uint64, types.Uintptr:
		return 0, 1<<63 - 1
	}
	return -1 << 63, 1<<63 - 1
}

// jsonToIface decodes into interface{}.
func (ex *Exec) jsonToIface(fr *Frame, site ssa.Instruction, n *JNode) Value {
	switch n.kind {
	case JNull:
		return Iface{}
	case JBool:
		return Iface{t: types.Typ[types.Bool], v: n.b}
	case JStr:
		return Iface{t: types.Typ[types.String], v: n.s}
	case JNum:
		var f *Term
		switch {
		case n.num.Sort == SF64:
			f = n.num
		case n.num.Sort == SInt:
			f = tIntToF64(n.num)
		default:
			f = tBVToF64(n.num, n.numSigned)
			if n.num.Sort.isBV() {
				// remember the integer for the %v contract when it is small enough to be exact
				if c, ok := n.num.BVVal(); ok {
					_ = c
				}
			}
		}
		return Iface{t: types.Typ[types.Float64], v: f}
	case JArr:
		ex.forceArr(n, site)
		a := make([]Value, len(n.arr))
		for i, c := range n.arr {
			a[i] = ex.lazyIfaceOf(fr, site, c)
		}
		et := types.NewInterfaceType(nil, nil)
		return Iface{t: types.NewSlice(et), v: Slice{a: a, n: len(a)}}
	case JObj:
		et := types.NewInterfaceType(nil, nil)
		mt := types.NewMap(types.Typ[types.String], et)
		m := ex.newMap(types.Typ[types.String], et)
		if n.lz != nil && !n.closed {
			m.lazy = n
		} else {
			for i, k := range n.keys {
				c := n.vals[i]
				slot := newPtr(ex.lazyIfaceOf(fr, site, c))
				m.entries = append(m.entries, &mapEntry{k: k, v: slot})
				if h, ok := hashKey(k); ok {
					m.idx[h] = len(m.entries) - 1
				}
			}
		}
		return Iface{t: mt, v: m}
	case JOpaque:
		return Iface{t: types.NewMap(types.Typ[types.String], types.NewInterfaceType(nil, nil)), v: ex.opaqueMap(n)}
	}
	panic(unsupported("jsonToIface kind"))
}

func (ex *Exec) opaqueDecode(n *JNode, t types.Type) Value {
	if n.kind == JOpaque {
		if types.Identical(n.otype, t) {
			return copyVal(n.opaque)
		}
		if p, ok := n.otype.Underlying().(*types.Pointer); ok && types.Identical(p.Elem(), t) {
			return copyVal(*(n.opaque.(*Value)))
		}
		if p, ok := t.Underlying().(*types.Pointer); ok && types.Identical(p.Elem(), n.otype) {
			return newPtr(copyVal(n.opaque))
		}
	}
	// decoding arbitrary JSON into an opaque library type: keep the tree
	v := zero(t)
	ex.opaqueTrees()[fmt.Sprintf("%p", &v)] = n
	return v
}

func (ex *Exec) opaqueTrees() map[string]*JNode {
	m, _ := ex.hctx["opaqueTrees"].(map[string]*JNode)
	if m == nil {
		m = map[string]*JNode{}
		ex.hctx["opaqueTrees"] = m
	}
	return m
}

func (ex *Exec) opaqueMap(n *JNode) *MapObj {
	m := ex.newMap(types.Typ[types.String], types.NewInterfaceType(nil, nil))
	slot := newPtr(Iface{t: types.Typ[types.String], v: mkStr("opaque")})
	m.entries = append(m.entries, &mapEntry{k: mkStr("$opaque"), v: slot})
	m.idx[hkey{"t", SStr, "$opaque"}] = 0
	return m
}

// decodeObject walks the members of object n, handing each to the field resolver.
func (ex *Exec) decodeObject(fr *Frame, site ssa.Instruction, d *decodeState, n *JNode, resolve func(key string, exact bool) (*Value, types.Type, bool), wanted []string) {
	if n.lz != nil && !n.closed {
		// lazy object: ask for each wanted key (fork present/absent); unknown extra keys are ignored anyway
		for _, k := range wanted {
			c := ex.lazyMember(n, k, site)
			if c == nil {
				continue
			}
			if p, ft, ok := resolve(k, true); ok {
				ex.jsonUnmarshal(fr, site, d, c, p, ft)
			}
		}
		return
	}
	for i, k := range n.keys {
		ks, ok := k.StrVal()
		if !ok {
			// symbolic member name: fork on equality with each wanted name
			matched := false
			for _, w := range wanted {
				if ex.branch(tEq(k, mkStr(w)), site) {
					if p, ft, ok := resolve(w, true); ok {
						ex.jsonUnmarshal(fr, site, d, n.vals[i], p, ft)
					}
					matched = true
					break
				}
			}
			_ = matched
			continue
		}
		if p, ft, ok := resolve(ks, false); ok {
			ex.jsonUnmarshal(fr, site, d, n.vals[i], p, ft)
		}
	}
}

func (ex *Exec) objForEach(n *JNode, site ssa.Instruction, f func(k *Term, c *JNode)) {
	if n.lz != nil && !n.closed {
		ex.lazyClose(n, site)
	}
	for i, k := range n.keys {
		f(k, n.vals[i])
	}
}

// ---------------------------------------------------------------------------------------
// text rendering of witnesses

func (ex *Exec) renderJSON(n *JNode, model map[string]ModelVal, b *bytes.Buffer) {
	ev := func(t *Term) ModelVal { return evalTerm(t, model) }
	switch n.kind {
	case JNull:
		b.WriteString("null")
	case JLazy:
		// never inspected beyond null / non-null and excluded kinds: any admissible value will do
		switch {
		case n.lz == nil || !n.lz.nonNull:
			b.WriteString("null")
		case !n.lz.excluded[JStr]:
			b.WriteString("\"lazy\"")
		case !n.lz.excluded[JNum]:
			b.WriteString("7")
		case !n.lz.excluded[JBool]:
			b.WriteString("true")
		case !n.lz.excluded[JObj]:
			b.WriteString("{}")
		default:
			b.WriteString("[]")
		}
	case JInvalid:
		b.WriteString("{\"jsonrpc\":")
	case JOpaque:
		b.WriteString("{\"$opaque\":\"opaque\"}")
	case JBool:
		if ev(n.b).B {
			b.WriteString("true")
		} else {
			b.WriteString("false")
		}
	case JNum:
		v := ev(n.num)
		switch v.Sort {
		case SInt:
			fmt.Fprintf(b, "%d", v.I)
		case SF64:
			bs, err := json.Marshal(v.F)
			if err != nil {
				b.WriteString("0")
			} else {
				s := string(bs)
				if n.isFloatLit && !strings.ContainsAny(s, ".eE") {
					s += ".5"
				}
				b.WriteString(s)
			}
		default:
			if n.numSigned {
				fmt.Fprintf(b, "%d", sext(n.num.Sort.width(), v.U))
			} else {
				fmt.Fprintf(b, "%d", v.U)
			}
		}
	case JStr:
		bs, _ := json.Marshal(latin1ToUTF8(ev(n.s.(*Term)).S))
		b.Write(bs)
	case JArr:
		b.WriteByte('[')
		for i, c := range n.arr {
			if i > 0 {
				b.WriteByte(',')
			}
			ex.renderJSON(c, model, b)
		}
		b.WriteByte(']')
	case JObj:
		b.WriteByte('{')
		for i, k := range n.keys {
			if i > 0 {
				b.WriteByte(',')
			}
			bs, _ := json.Marshal(latin1ToUTF8(ev(k).S))
			b.Write(bs)
			b.WriteByte(':')
			ex.renderJSON(n.vals[i], model, b)
		}
		b.WriteByte('}')
	}
}

func latin1ToUTF8(s string) string {
	ascii := true
	for i := 0; i < len(s); i++ {
		if s[i] >= 0x80 {
			ascii = false
		}
	}
	if ascii {
		return s
	}
	return s // bytes are kept; harness alphabets are ASCII
}
