package main

// Path exploration by decision-vector re-execution (DESIGN 2.2), parallel workers.

import (
	"bytes"
	"fmt"
	"os"
	"sort"
	"strings"
	"sync"
	"time"

	"golang.org/x/tools/go/ssa"
)

type PathResult struct {
	Harness   string
	Decisions []Decision
	Outcome   string // completed | infeasible | stop | panic | deadlock | unsupported | unwind
	Detail    string
	PanicSite string
	Trace     []TraceEvent
	Asserts   []*AssertRec
	Violations []*Violation
	KnownSeen []string
	Unknowns  []string
	EngineErrs []string
	Races     []RaceReport
	Witness   *Witness
	Funcs     []string
	NonReplayable bool
	Steps     int
}

type Witness struct {
	Harness string            `json:"harness"`
	Values  map[string]WVal   `json:"values"`
	Choices map[string]int    `json:"choices"`
	JSON    map[string]string `json:"json"`
	Expect  []TraceEvent      `json:"expect"`
	Outcome string            `json:"outcome"`
	Notes   map[string]string `json:"notes,omitempty"`
	Preempts []Preempt        `json:"preempts,omitempty"`
	Order    []string         `json:"order,omitempty"`
}

type WVal struct {
	Kind string  `json:"kind"`
	I    int64   `json:"i,omitempty"`
	U    uint64  `json:"u,omitempty"`
	F    string  `json:"f,omitempty"` // float bits in hex
	S    string  `json:"s,omitempty"`
	B    bool    `json:"b,omitempty"`
}

type Violation struct {
	Kind    string // assert | panic | deadlock | race
	Label   string
	Harness string
	Site    string
	Detail  string
	Witness *Witness
	Known   string
	Sched   bool // found on a path with scheduling / environment decisions the native run cannot be forced into
}

func (ex *Exec) buildWitness(model map[string]ModelVal, outcome string) *Witness {
	w := &Witness{Harness: ex.harness, Values: map[string]WVal{}, Choices: map[string]int{}, JSON: map[string]string{}, Outcome: outcome}
	for _, v := range ex.vars {
		if v.Kind == "fresh" || strings.HasPrefix(v.Name, "j:") {
			continue
		}
		m, ok := model[v.T.K.(string)]
		if !ok {
			m = ModelVal{Sort: v.T.Sort}
		}
		wv := WVal{Kind: v.Kind}
		switch v.T.Sort {
		case SBool:
			wv.B = m.B
		case SInt:
			wv.I = m.I
		case SF64:
			wv.F = fmt.Sprintf("%016x", float64bits(m.F))
		case SStr:
			wv.S = m.S
		default:
			wv.U = m.U
			wv.I = sext(v.T.Sort.width(), m.U)
		}
		w.Values[v.Name] = wv
	}
	for _, c := range ex.choices {
		w.Choices[c.Name] = c.V
	}
	w.Preempts = append([]Preempt(nil), ex.preempts...)
	if len(ex.preempts) > 0 {
		w.Order = append([]string(nil), ex.order...)
	}
	for _, j := range ex.jsonInputs {
		var b bytes.Buffer
		ex.renderJSON(j.N, model, &b)
		w.JSON[j.Name] = b.String()
	}
	return w
}

// runPath executes one path of harness fn following prefix.
func (e *Engine) runPath(sol *Solver, fn *ssa.Function, prefix []Decision) (res *PathResult, alts [][]Decision) {
	ex := &Exec{eng: e, sol: sol, prefix: prefix, globals: map[*ssa.Global]*Value{}, initDone: map[*ssa.Package]bool{},
		maxSteps: e.opts.MaxSteps, varByNm: map[string]*SymVar{}, occ: map[string]int{}, reached: map[string]bool{},
		funcs: map[string]bool{}, harness: fn.Name(), shadow: map[*Value]*shadowCell{}, hctx: map[string]interface{}{},
		maxSwitch: 8}
	main := ex.newThread()
	main.isMain = true
	main.started = true
	ex.cur = main
	res = &PathResult{Harness: fn.Name()}
	sol.BeginPath()
	defer sol.EndPath()
	func() {
		defer func() {
			r := recover()
			if r == nil {
				res.Outcome = "completed"
				return
			}
			switch s := r.(type) {
			case *pathAbort:
				res.Outcome = s.kind
			case *unsupportedErr:
				res.Outcome = "unsupported"
				res.Detail = s.msg
			case *unwindFail:
				res.Outcome = "unwind"
				res.Detail = s.msg
			case *goPanic:
				res.Outcome = "panic"
				res.Detail = s.descr
				res.PanicSite = s.site
			case *uncaughtPanic:
				res.Outcome = "panic"
				res.Detail = fmt.Sprintf("goroutine %d: %s", s.thread, s.gp.descr)
				res.PanicSite = s.gp.site
			case *deadlockErr:
				res.Outcome = "deadlock"
				res.Detail = s.what
			default:
				// Go runtime error inside the engine: report as unsupported with stack info
				res.Outcome = "unsupported"
				res.Detail = fmt.Sprintf("engine panic: %v\n%s", r, shortStack())
			}
		}()
		ex.callSSA(nil, nil, fn, nil, nil)
	}()
	ex.killThreads()
	res.Decisions = ex.decs
	res.Trace = ex.trace
	res.Asserts = ex.asserts
	res.Unknowns = ex.unknowns
	res.EngineErrs = ex.engineErrors
	res.Races = ex.races
	res.Funcs = sortedKeys(ex.funcs)
	res.NonReplayable = ex.nondetEnv > 0
	res.Steps = ex.steps
	for _, v := range ex.violations {
		v.Sched = ex.nondetEnv > 0
	}
	res.Violations = ex.violations
	res.KnownSeen = ex.knownSeen
	if res.Outcome == "infeasible" {
		return res, ex.alts
	}
	// panic / deadlock outcomes are violation candidates (classified against known findings)
	if res.Outcome == "panic" || res.Outcome == "deadlock" {
		ex.trace = append(ex.trace, TraceEvent{Kind: res.Outcome, Label: res.Detail})
		res.Trace = ex.trace
		ex.classifyCrash(res)
		res.Violations = ex.violations
		res.KnownSeen = ex.knownSeen
	}
	// witness of the whole path (for co-execution)
	if res.Outcome == "completed" || res.Outcome == "stop" || res.Outcome == "panic" {
		terms := ex.modelTerms()
		var r SatResult
		var model map[string]ModelVal
		if ex.pcN == 0 && len(terms) == 0 {
			r, model = Sat, map[string]ModelVal{} // nothing symbolic on this path
		} else {
			r, model, _ = sol.Check(nil, terms)
		}
		if r == Sat {
			w := ex.buildWitness(model, res.Outcome)
			w.Expect = ex.expectTrace(model)
			res.Witness = w
		} else if r == Unsat {
			res.Outcome = "infeasible"
		}
	}
	if res.Outcome != "infeasible" {
		for _, rr := range ex.races {
			ex.classifyRace(rr, res.Witness)
		}
	}
	for _, v := range ex.violations {
		v.Sched = ex.nondetEnv > 0
	}
	res.Violations = ex.violations
	res.KnownSeen = ex.knownSeen
	return res, ex.alts
}

func shortStack() string {
	buf := make([]byte, 4096)
	n := runtimeStack(buf)
	s := string(buf[:n])
	lines := strings.Split(s, "\n")
	var out []string
	for _, l := range lines {
		if strings.Contains(l, "/verif/engine/") {
			out = append(out, strings.TrimSpace(l))
		}
		if len(out) > 12 {
			break
		}
	}
	return strings.Join(out, "\n")
}

// modelTerms lists the variables whose values the witness needs.
func (ex *Exec) modelTerms() []*Term {
	var ts []*Term
	for _, v := range ex.vars {
		ts = append(ts, v.T)
	}
	return ts
}

// expectTrace: the events the native run must reproduce (asserts, reaches, notes with values).
func (ex *Exec) expectTrace(model map[string]ModelVal) []TraceEvent {
	var out []TraceEvent
	noteVals := map[int]Value{}
	for _, n := range ex.notes {
		noteVals[n.idx] = n.v
	}
	for i, ev := range ex.trace {
		switch ev.Kind {
		case "assert", "reach", "panic", "deadlock":
			e := ev
			e.Val = ""
			if ev.Kind == "panic" || ev.Kind == "deadlock" {
				e.Label = ""
			}
			out = append(out, e)
		case "note":
			if v, ok := noteVals[i]; ok {
				e := TraceEvent{Kind: "note", Label: ev.Label}
				if t, ok := v.(*Term); ok && t.IsConst() {
					e.Val = modelValString(evalTerm(t, model))
					out = append(out, e)
				} else if t, ok := v.(*Term); ok && t.Op == "var" {
					e.Val = modelValString(evalTerm(t, model))
					out = append(out, e)
				} else {
					e.Val = "?"
					out = append(out, e)
				}
			}
		}
	}
	return out
}

func modelValString(m ModelVal) string {
	switch m.Sort {
	case SBool:
		return fmt.Sprint(m.B)
	case SInt:
		return fmt.Sprint(m.I)
	case SStr:
		return m.S
	case SF64, SF32:
		return fmt.Sprintf("%016x", float64bits(m.F))
	}
	return fmt.Sprint(int64(m.U))
}

// ---------------------------------------------------------------------------------------

type HarnessReport struct {
	Name        string
	Paths       []*PathResult
	Completed   int
	Infeasible  int
	Decisions   int
	Obligations int
	Discharged  int
	Violations  []*Violation
	KnownSeen   map[string]bool
	Unknowns    []string
	Unsupported []string
	Unwind      []string
	EngineErrs  []string
	Reached     map[string]bool
	Funcs       map[string]bool
	WallS       float64
}

func (e *Engine) exploreHarness(fn *ssa.Function, workers int, maxPaths int) *HarnessReport {
	rep := &HarnessReport{Name: fn.Name(), KnownSeen: map[string]bool{}, Reached: map[string]bool{}, Funcs: map[string]bool{}}
	t0 := time.Now()
	var mu sync.Mutex
	cond := sync.NewCond(&mu)
	work := [][]Decision{nil}
	active := 0
	total := 0
	stop := false
	var wg sync.WaitGroup
	for w := 0; w < workers; w++ {
		wg.Add(1)
		go func() {
			defer wg.Done()
			sol, err := newSolver(e.opts.SolverTimeoutMs, e.opts.Cross)
			if err != nil {
				mu.Lock()
				rep.EngineErrs = append(rep.EngineErrs, "solver start: "+err.Error())
				stop = true
				cond.Broadcast()
				mu.Unlock()
				return
			}
			defer sol.Close()
			for {
				mu.Lock()
				for len(work) == 0 && active > 0 && !stop {
					cond.Wait()
				}
				if stop || (len(work) == 0 && active == 0) {
					cond.Broadcast()
					mu.Unlock()
					return
				}
				p := work[len(work)-1]
				work = work[:len(work)-1]
				active++
				total++
				if maxPaths > 0 && total > maxPaths {
					rep.Unwind = append(rep.Unwind, fmt.Sprintf("path budget (%d) exceeded", maxPaths))
					stop = true
					active--
					cond.Broadcast()
					mu.Unlock()
					return
				}
				mu.Unlock()
				res, alts := e.runPath(sol, fn, p)
				if os.Getenv("GOSYM_DEBUG") != "" {
					fmt.Fprintf(os.Stderr, "DEBUG path prefix=%s decs=%s outcome=%s %s steps=%d alts=%d\n", decString(p), decString(res.Decisions), res.Outcome, res.Detail, res.Steps, len(alts))
				}
				mu.Lock()
				active--
				work = append(work, alts...)
				rep.absorb(res)
				cond.Broadcast()
				mu.Unlock()
			}
		}()
	}
	wg.Wait()
	rep.WallS = time.Since(t0).Seconds()
	return rep
}

func (rep *HarnessReport) absorb(res *PathResult) {
	rep.Decisions += len(res.Decisions)
	for _, f := range res.Funcs {
		rep.Funcs[f] = true
	}
	switch res.Outcome {
	case "infeasible":
		rep.Infeasible++
		return
	case "unsupported":
		rep.Unsupported = append(rep.Unsupported, res.Detail)
	case "unwind":
		rep.Unwind = append(rep.Unwind, res.Detail)
	}
	rep.Paths = append(rep.Paths, res)
	if res.Outcome == "completed" || res.Outcome == "stop" || res.Outcome == "panic" || res.Outcome == "deadlock" {
		rep.Completed++
	}
	for _, a := range res.Asserts {
		rep.Obligations++
		if a.Result == Unsat {
			rep.Discharged++
		}
	}
	for _, ev := range res.Trace {
		if ev.Kind == "reach" {
			rep.Reached[ev.Label] = true
		}
	}
	rep.Violations = append(rep.Violations, res.Violations...)
	for _, k := range res.KnownSeen {
		rep.KnownSeen[k] = true
	}
	rep.Unknowns = append(rep.Unknowns, res.Unknowns...)
	rep.EngineErrs = append(rep.EngineErrs, res.EngineErrs...)
}

func dedupe(xs []string) []string {
	m := map[string]bool{}
	var out []string
	for _, x := range xs {
		if !m[x] {
			m[x] = true
			out = append(out, x)
		}
	}
	sort.Strings(out)
	return out
}

var _ = os.Stderr
