package main

// `gosym check -p <prop>`: overlay harnesses, explore, co-execute natively, write evidence.

import (
	"encoding/json"
	"flag"
	"fmt"
	"math"
	"os"
	"os/exec"
	"path/filepath"
	"runtime"
	"sort"
	"strconv"
	"strings"
	"sync"
	"time"

	"golang.org/x/tools/go/ssa"
)

func float64bits(f float64) uint64 { return math.Float64bits(f) }
func runtimeStack(b []byte) int    { return runtime.Stack(b, false) }

const verifDir = "/verif"

type harnessFile struct {
	src     string // path under /verif/harness
	pkgDir  string // relative dir in /repo
	pkgName string
	content []byte
	assumes []string
	bounds  []string
}

func readHarnessFiles(prop string) ([]*harnessFile, error) {
	return readHarnessFilesFrom(filepath.Join(verifDir, "harness", prop), "")
}

func readHarnessFilesFrom(dir string, onlyName string) ([]*harnessFile, error) {
	ents, err := os.ReadDir(dir)
	if err != nil {
		return nil, err
	}
	var out []*harnessFile
	for _, e := range ents {
		if !strings.HasSuffix(e.Name(), ".go") {
			continue
		}
		if onlyName != "" && e.Name() != onlyName {
			continue
		}
		b, err := os.ReadFile(filepath.Join(dir, e.Name()))
		if err != nil {
			return nil, err
		}
		h := &harnessFile{src: filepath.Join(dir, e.Name()), pkgDir: ".", content: b}
		for _, line := range strings.Split(string(b), "\n") {
			switch {
			case strings.HasPrefix(line, "//verif:pkg "):
				h.pkgDir = strings.TrimSpace(strings.TrimPrefix(line, "//verif:pkg "))
			case strings.HasPrefix(line, "//verif:assume "):
				h.assumes = append(h.assumes, strings.TrimSpace(strings.TrimPrefix(line, "//verif:assume ")))
			case strings.HasPrefix(line, "//verif:bound "):
				h.bounds = append(h.bounds, strings.TrimSpace(strings.TrimPrefix(line, "//verif:bound ")))
			case strings.HasPrefix(line, "package ") && h.pkgName == "":
				h.pkgName = strings.TrimSpace(strings.TrimPrefix(line, "package "))
			}
		}
		out = append(out, h)
	}
	return out, nil
}

func cmdCheck(args []string) int {
	fs := flag.NewFlagSet("check", flag.ExitOnError)
	prop := fs.String("p", "", "property id (harness directory)")
	tier := fs.String("tier", "", "quick|thorough")
	only := fs.String("harness", "", "run only this harness function")
	workers := fs.Int("j", 12, "workers")
	noNative := fs.Bool("no-native", false, "skip native co-execution")
	verbose := fs.Bool("v", false, "verbose")
	maxPaths := fs.Int("max-paths", 0, "path budget per harness (0 = tier default)")
	fs.Parse(args)
	if *prop == "" {
		fmt.Fprintln(os.Stderr, "check: -p required")
		return 2
	}
	if *tier == "" {
		*tier = os.Getenv("VERIF_TIER")
	}
	if *tier != "thorough" {
		*tier = "quick"
	}
	seed, _ := strconv.Atoi(os.Getenv("VERIF_SEED"))
	t0 := time.Now()
	loadFindings(filepath.Join(verifDir, "known_findings.json"))

	hfiles, err := readHarnessFiles(*prop)
	if err != nil || len(hfiles) == 0 {
		fmt.Fprintf(os.Stderr, "check: no harness files for %s: %v\n", *prop, err)
		return 2
	}
	// shared harness files requested with //verif:use <name>
	seenUse := map[string]bool{}
	for i := 0; i < len(hfiles); i++ { // transitive: files appended below are scanned too
		h := hfiles[i]
		for _, line := range strings.Split(string(h.content), "\n") {
			if strings.HasPrefix(line, "//verif:use ") {
				name := strings.TrimSpace(strings.TrimPrefix(line, "//verif:use "))
				if seenUse[name] {
					continue
				}
				seenUse[name] = true
				more, err := readHarnessFilesFrom(filepath.Join(verifDir, "harness", "common"), name+".go")
				if err != nil {
					fmt.Fprintln(os.Stderr, "check: cannot read common harness", name, err)
					return 2
				}
				hfiles = append(hfiles, more...)
			}
		}
	}
	overlay := map[string][]byte{}
	pkgs := map[string]string{} // pkgDir -> pkgName
	for _, h := range hfiles {
		base := "zz_verif_" + strings.TrimSuffix(filepath.Base(h.src), ".go") + ".go"
		overlay[filepath.Join(repoDir, h.pkgDir, base)] = h.content
		pkgs[h.pkgDir] = h.pkgName
	}
	for d, n := range pkgs {
		overlay[filepath.Join(repoDir, d, "zz_verif_prims.go")] = []byte(strings.ReplaceAll(nativePrims, "PKGNAME", n))
	}
	var patterns []string
	for d := range pkgs {
		patterns = append(patterns, "./"+d)
	}
	sort.Strings(patterns)
	P, err := loadProgram(overlay, patterns...)
	if err != nil {
		fmt.Fprintln(os.Stderr, "check: load failed:", err)
		return 2
	}
	loadS := time.Since(t0).Seconds()
	eng := &Engine{P: P, opts: Options{MaxDecisions: 600, MaxSteps: 3000000, Verbose: *verbose, Tier: *tier, SolverTimeoutMs: 20000, Cross: true}}
	if *tier == "thorough" {
		eng.opts.MaxDecisions = 1500
		eng.opts.SolverTimeoutMs = 60000
	}
	gTier = *tier

	// harness functions
	var hfuncs []*ssa.Function
	for d := range pkgs {
		path := modPath
		if d != "." {
			path = modPath + "/" + d
		}
		pkg := P.pkgs[path]
		if pkg == nil {
			fmt.Fprintln(os.Stderr, "check: package not loaded:", path)
			return 2
		}
		for name, m := range pkg.Members {
			if f, ok := m.(*ssa.Function); ok && strings.HasPrefix(name, "H_") {
				if *only != "" && name != *only {
					continue
				}
				hfuncs = append(hfuncs, f)
			}
		}
	}
	sort.Slice(hfuncs, func(i, j int) bool { return hfuncs[i].Name() < hfuncs[j].Name() })
	if len(hfuncs) == 0 {
		fmt.Fprintln(os.Stderr, "check: no harness functions")
		return 2
	}
	budget := *maxPaths
	if budget == 0 {
		budget = 40000
		if *tier == "thorough" {
			budget = 400000
		}
	}
	var reports []*HarnessReport
	for _, f := range hfuncs {
		rep := eng.exploreHarness(f, *workers, budget)
		reports = append(reports, rep)
		fmt.Printf("harness %-40s paths=%d infeasible=%d obligations=%d discharged=%d violations=%d known=%d unknown=%d unsupported=%d unwind=%d  %.1fs\n",
			rep.Name, rep.Completed, rep.Infeasible, rep.Obligations, rep.Discharged, len(rep.Violations), len(rep.KnownSeen), len(rep.Unknowns), len(rep.Unsupported), len(rep.Unwind), rep.WallS)
		if *verbose {
			for _, p := range rep.Paths {
				fmt.Printf("   path %v outcome=%s %s\n", decString(p.Decisions), p.Outcome, p.Detail)
			}
		}
	}

	// ---- native co-execution of path witnesses and violation replays ----
	var nat *nativeResult
	if !*noNative {
		nat = runNative(overlay, pkgs, reports, *prop)
	}

	// ---- verdict ----
	exit := 0
	var problems []string
	confirmed := 0
	os.MkdirAll(filepath.Join(verifDir, "out", "replay"), 0755)
	nviol := 0
	for _, rep := range reports {
		for _, u := range dedupe(rep.Unsupported) {
			problems = append(problems, fmt.Sprintf("ENGINE-ERROR harness=%s unsupported: %s", rep.Name, u))
		}
		for _, u := range dedupe(rep.Unwind) {
			problems = append(problems, fmt.Sprintf("UNWINDING-FAILURE harness=%s %s", rep.Name, u))
		}
		for _, u := range dedupe(rep.Unknowns) {
			problems = append(problems, fmt.Sprintf("NOT-DECIDED harness=%s %s", rep.Name, u))
		}
		for _, u := range dedupe(rep.EngineErrs) {
			problems = append(problems, fmt.Sprintf("ENGINE-ERROR harness=%s %s", rep.Name, u))
		}
		// vacuity: every vReach label mentioned in the harness source must have been reached
		for _, l := range reachLabels(hfiles, rep.Name) {
			if !rep.Reached[l] {
				problems = append(problems, fmt.Sprintf("VACUOUS harness=%s label %q never reached", rep.Name, l))
			}
		}
		seenV := map[string]bool{}
		for _, v := range rep.Violations {
			key := v.Kind + "|" + v.Label + "|" + v.Site
			if seenV[key] {
				continue
			}
			seenV[key] = true
			nviol++
			path := filepath.Join(verifDir, "out", "replay", fmt.Sprintf("%s-%s-%d.json", *prop, rep.Name, nviol))
			if v.Witness != nil {
				b, _ := json.MarshalIndent(v.Witness, "", " ")
				os.WriteFile(path, b, 0644)
			}
			ok, why := true, ""
			if nat != nil && v.Witness != nil {
				ok, why = nat.confirms(v)
				if !ok {
					// another witness of the same violation may be the one the native run reproduces
					for _, v2 := range rep.Violations {
						if v2 != v && v2.Kind+"|"+v2.Label+"|"+v2.Site == key && v2.Witness != nil {
							if ok2, _ := nat.confirms(v2); ok2 {
								ok, why, v = true, "", v2
								b, _ := json.MarshalIndent(v.Witness, "", " ")
								os.WriteFile(path, b, 0644)
								break
							}
						}
					}
				}
			}
			if !ok {
				if v.Sched {
					problems = append(problems, fmt.Sprintf("UNCONFIRMED-SCHEDULE-VIOLATION harness=%s %s %q holds under the free-running native schedule but fails under a schedule the engine found (replay=%s): %s", rep.Name, v.Kind, v.Label, path, why))
				} else {
					problems = append(problems, fmt.Sprintf("ENGINE-ERROR harness=%s counterexample for %s %q did not reproduce natively: %s", rep.Name, v.Kind, v.Label, why))
				}
				continue
			}
			confirmed++
			fmt.Printf("VIOLATION property=%s replay=%s\n", *prop, path)
			fmt.Printf("  harness=%s kind=%s label=%q site=%s %s\n", rep.Name, v.Kind, v.Label, v.Site, v.Detail)
			exit = 1
		}
	}
	known := map[string]bool{}
	for _, rep := range reports {
		for k := range rep.KnownSeen {
			known[k] = true
		}
	}
	for _, f := range knownFindings.Findings {
		if known[f.ID] {
			fmt.Printf("KNOWN-FINDING: property=%s %s [%s]\n", f.Property, f.What, f.ID)
		}
	}
	if nat != nil {
		for i, m := range nat.mismatches {
			if i >= 5 {
				problems = append(problems, fmt.Sprintf("ENGINE-ERROR ... %d more co-execution mismatches", len(nat.mismatches)-5))
				break
			}
			problems = append(problems, "ENGINE-ERROR co-execution mismatch: "+m)
		}
		if nat.err != "" {
			problems = append(problems, "ENGINE-ERROR native build/run: "+nat.err)
		}
	}
	for _, p := range problems {
		fmt.Println(p)
	}
	if len(problems) > 0 && exit == 0 {
		exit = 3
	}
	writeEvidence(*prop, *tier, seed, reports, nat, hfiles, time.Since(t0).Seconds(), loadS, confirmed, known, problems)
	fmt.Printf("check %s tier=%s exit=%d wall=%.1fs solver: sat=%d unsat=%d unknown=%d time=%.1fs cross: sat=%d unsat=%d noopinion=%d time=%.1fs\n",
		*prop, *tier, exit, time.Since(t0).Seconds(), gStats.Sat, gStats.Unsat, gStats.Unknown, float64(gStats.TimeNs)/1e9,
		gStats.XSat, gStats.XUnsat, gStats.XUnknown, float64(gStats.XTimeNs)/1e9)
	return exit
}

var gTier = "quick"

func decString(ds []Decision) string {
	var b strings.Builder
	for _, d := range ds {
		if d.Forced {
			fmt.Fprintf(&b, "%d!", d.V)
		} else {
			fmt.Fprintf(&b, "%d", d.V)
		}
	}
	return b.String()
}

// reachLabels extracts vReach("label") occurrences in the body of harness fn (textually).
func reachLabels(hfiles []*harnessFile, fn string) []string {
	var out []string
	for _, h := range hfiles {
		src := string(h.content)
		i := strings.Index(src, "func "+fn+"()")
		if i < 0 {
			continue
		}
		body := src[i:]
		if j := strings.Index(body[1:], "\nfunc "); j >= 0 {
			body = body[:j+1]
		}
		for {
			k := strings.Index(body, "vReach(\"")
			if k < 0 {
				break
			}
			body = body[k+8:]
			e := strings.Index(body, "\"")
			if e < 0 {
				break
			}
			out = append(out, body[:e])
		}
	}
	return out
}

// ---------------------------------------------------------------------------------------
// native co-execution (DESIGN 2.12 / 2.13)

type nativeResult struct {
	raceSeen   map[string]bool
	err        string
	validated  int
	lost       int // witnesses handed to the native runner that came back without a result
	skipped    int
	mismatches []string
	results    map[string]*nativeRun // key: witness id
	// runs of schedule-dependent violation witnesses on the instrumented (preemption-replaying) binary
	schedResults map[string][]*nativeRun
	schedErr     string
}

type nativeRun struct {
	ID     string       `json:"id"`
	Trace  []TraceEvent `json:"trace"`
	Panic  string       `json:"panic"`
	Timeout bool        `json:"timeout"`
}

type witnessJob struct {
	ID string   `json:"id"`
	W  *Witness `json:"w"`
}

func runNative(overlay map[string][]byte, pkgs map[string]string, reports []*HarnessReport, prop string) *nativeResult {
	nr := &nativeResult{results: map[string]*nativeRun{}}
	tmp, err := os.MkdirTemp("", "gosym-native-")
	if err != nil {
		nr.err = err.Error()
		return nr
	}
	if os.Getenv("GOSYM_KEEP") != "" {
		fmt.Fprintf(os.Stderr, "KEEP native dir %s\n", tmp)
	} else {
		defer os.RemoveAll(tmp)
	}
	// jobs
	var jobs []witnessJob
	jobHarness := map[string]string{}
	pathOf := map[string]*PathResult{}
	for _, rep := range reports {
		for i, p := range rep.Paths {
			if p.Witness == nil {
				continue
			}
			if p.NonReplayable {
				nr.skipped++
				continue
			}
			id := fmt.Sprintf("%s/p%d", rep.Name, i)
			jobs = append(jobs, witnessJob{ID: id, W: p.Witness})
			jobHarness[id] = rep.Name
			pathOf[id] = p
		}
		for i, v := range rep.Violations {
			if v.Witness == nil || v.Kind == "race" {
				continue
			}
			id := fmt.Sprintf("%s/v%d", rep.Name, i)
			v.Witness.Notes = map[string]string{"vid": id}
			jobs = append(jobs, witnessJob{ID: id, W: v.Witness})
		}
	}
	if len(jobs) == 0 {
		return nr
	}
	// overlay files on disk
	repl := map[string]string{}
	n := 0
	for path, content := range overlay {
		n++
		f := filepath.Join(tmp, fmt.Sprintf("ov%d.go", n))
		os.WriteFile(f, content, 0644)
		repl[path] = f
	}
	// per package: test file with registry
	harnessByPkg := map[string][]string{}
	for _, rep := range reports {
		for d := range pkgs {
			harnessByPkg[d] = harnessByPkg[d]
			_ = rep
		}
	}
	for path, content := range overlay {
		if strings.HasSuffix(path, "zz_verif_prims.go") {
			continue
		}
		d, _ := filepath.Rel(repoDir, filepath.Dir(path))
		for _, line := range strings.Split(string(content), "\n") {
			if strings.HasPrefix(line, "func H_") && strings.Contains(line, "()") {
				name := strings.TrimPrefix(line, "func ")
				name = name[:strings.Index(name, "(")]
				harnessByPkg[d] = append(harnessByPkg[d], name)
			}
		}
	}
	for d, names := range harnessByPkg {
		sort.Strings(names)
		var b strings.Builder
		fmt.Fprintf(&b, "package %s\n\nimport \"testing\"\n\nfunc TestVerifReplay(t *testing.T) {\n\tverifRunReplay(map[string]func(){\n", pkgs[d])
		for _, nme := range names {
			fmt.Fprintf(&b, "\t\t%q: %s,\n", nme, nme)
		}
		b.WriteString("\t})\n}\n")
		n++
		f := filepath.Join(tmp, fmt.Sprintf("ov%d_test.go", n))
		os.WriteFile(f, []byte(b.String()), 0644)
		repl[filepath.Join(repoDir, d, "zz_verif_replay_test.go")] = f
	}
	ovb, _ := json.Marshal(map[string]interface{}{"Replace": repl})
	ovf := filepath.Join(tmp, "overlay.json")
	os.WriteFile(ovf, ovb, 0644)
	jb, _ := json.Marshal(jobs)
	jf := filepath.Join(tmp, "jobs.json")
	os.WriteFile(jf, jb, 0644)
	gotmp := filepath.Join(tmp, "gotmp")
	os.MkdirAll(gotmp, 0755)
	env := append(os.Environ(), "GOFLAGS=-mod=mod", "GOPROXY=off", "GOSUMDB=off", "GOTOOLCHAIN=local", "GOTMPDIR="+gotmp, "VERIF_TIER="+gTier)
	for d := range harnessByPkg {
		bin := filepath.Join(tmp, "t_"+sanitize(d)+".test")
		cmd := exec.Command("go", "test", "-c", "-vet=off", "-overlay", ovf, "-o", bin, "./"+d)
		cmd.Dir = repoDir
		cmd.Env = env
		out, err := cmd.CombinedOutput()
		if err != nil {
			nr.err = fmt.Sprintf("go test -c ./%s: %v\n%s", d, err, string(out))
			return nr
		}
		// the witnesses are run in several processes side by side (each path's native run contains real
		// waiting: quiescence pauses, time-outs), each process crash tolerant on its own shard
		shards := 8
		if len(jobs) < 64 {
			shards = 1
		}
		type shardOut struct {
			results map[string]*nativeRun
			err     string
		}
		outs := make([]shardOut, shards)
		var wg sync.WaitGroup
		for sh := 0; sh < shards; sh++ {
			var mine []witnessJob
			for i, j := range jobs {
				if i%shards == sh {
					mine = append(mine, j)
				}
			}
			if len(mine) == 0 {
				continue
			}
			wg.Add(1)
			go func(sh int, mine []witnessJob) {
				defer wg.Done()
				res := map[string]*nativeRun{}
				outs[sh].results = res
				sjb, _ := json.Marshal(mine)
				sjf := filepath.Join(tmp, fmt.Sprintf("jobs_%s_%d.json", sanitize(d), sh))
				os.WriteFile(sjf, sjb, 0644)
				outf := filepath.Join(tmp, fmt.Sprintf("out_%s_%d.jsonl", sanitize(d), sh))
				skip := 0
				latePanic := map[string]string{}
				defer func() {
					for id, msg := range latePanic {
						if r := res[id]; r != nil && r.Panic == "" {
							r.Panic = msg
						}
					}
				}()
				for restarts := 0; restarts < 200; restarts++ {
					run := exec.Command(bin, "-test.run", "^TestVerifReplay$", "-test.count=1", "-test.timeout=30m")
					run.Dir = filepath.Join(repoDir, d)
					// a private copy: the shards run concurrently and must not append into one shared backing array
					run.Env = append(append([]string{}, env...), "VERIF_REPLAY="+sjf, "VERIF_OUT="+outf, fmt.Sprintf("VERIF_SKIP=%d", skip))
					o2, runErr := run.CombinedOutput()
					ob, _ := os.ReadFile(outf)
					done := 0
					started := ""
					last := ""
					for _, line := range strings.Split(string(ob), "\n") {
						if strings.TrimSpace(line) == "" {
							continue
						}
						var probe struct {
							ID      string `json:"id"`
							Started bool   `json:"started"`
							Absent  bool   `json:"absent"`
						}
						if json.Unmarshal([]byte(line), &probe) != nil {
							continue
						}
						switch {
						case probe.Absent:
							done++
						case probe.Started:
							started = probe.ID
						default:
							var r nativeRun
							if json.Unmarshal([]byte(line), &r) == nil {
								res[r.ID] = &r
								done++
								started = ""
								last = r.ID
							}
						}
					}
					if runErr == nil || done >= len(mine) {
						break
					}
					// the process died while running job `started`: that job crashed the process
					if started == "" {
						// no job was running: a goroutine left behind by the job that finished last brought
						// the process down after that job's result had been written
						if _, seen := latePanic[last]; last == "" || seen {
							outs[sh].err = fmt.Sprintf("native run ./%s: %v\n%s", d, runErr, tail(string(o2), 1500))
							return
						}
						latePanic[last] = "process crashed after the harness returned: " + tail(string(o2), 300)
						skip = done
						continue
					}
					res[started] = &nativeRun{ID: started, Panic: "process crashed: " + tail(string(o2), 300)}
					done++
					os.WriteFile(outf, append(ob, []byte(fmt.Sprintf("{\"id\":%q,\"panic\":\"process crashed\"}\n", started))...), 0644)
					skip = done
				}
			}(sh, mine)
		}
		wg.Wait()
		for _, o := range outs {
			if o.err != "" {
				nr.err = o.err
				return nr
			}
			for k, v := range o.results {
				nr.results[k] = v
			}
		}
	}
	// race violations: confirm with the runtime race detector (one -race binary per package); when the
	// free-running run does not show the race and the engine found it under a schedule with preemptions,
	// a -race binary built from the instrumented copy replays the engine's order of synchronisation
	// operations (instrument.go)
	for _, j := range jobs {
		if nr.results[j.ID] == nil {
			nr.lost++
		}
	}
	if nr.lost > 0 {
		fmt.Fprintf(os.Stderr, "WARNING native co-execution: %d of %d witnesses came back without a result\n", nr.lost, len(jobs))
	}
	nr.raceSeen = map[string]bool{}
	raceJobs := map[string][]witnessJob{}
	for _, rep := range reports {
		for _, v := range rep.Violations {
			if v.Kind == "race" && v.Witness != nil && len(raceJobs[rep.Name]) < 3 {
				raceJobs[rep.Name] = append(raceJobs[rep.Name], witnessJob{ID: rep.Name + "/race", W: v.Witness})
			}
		}
	}
	if len(raceJobs) > 0 {
		runRace := func(bin, d string, job witnessJob, tries, repeat int) bool {
			jb, _ := json.Marshal([]witnessJob{job})
			rf := filepath.Join(tmp, "racejob.json")
			os.WriteFile(rf, jb, 0644)
			for try := 0; try < tries; try++ {
				run := exec.Command(bin, "-test.run", "^TestVerifReplay$", "-test.count=1", "-test.timeout=10m")
				run.Dir = filepath.Join(repoDir, d)
				run.Env = append(append([]string{}, env...), "VERIF_REPLAY="+rf, "VERIF_OUT="+filepath.Join(tmp, "raceout.json"), "GORACE=halt_on_error=0", fmt.Sprintf("VERIF_REPEAT=%d", repeat))
				o, _ := run.CombinedOutput()
				if strings.Contains(string(o), "WARNING: DATA RACE") {
					return true
				}
			}
			return false
		}
		inPkg := func(d, name string) bool {
			for _, h := range harnessByPkg[d] {
				if h == name {
					return true
				}
			}
			return false
		}
		for d := range harnessByPkg {
			bin := filepath.Join(tmp, "r_"+sanitize(d)+".test")
			cmd := exec.Command("go", "test", "-race", "-c", "-vet=off", "-overlay", ovf, "-o", bin, "./"+d)
			cmd.Dir = repoDir
			cmd.Env = env
			if out, err := cmd.CombinedOutput(); err != nil {
				nr.err = fmt.Sprintf("go test -race -c ./%s: %v\n%s", d, err, tail(string(out), 1500))
				return nr
			}
			for name, jobs := range raceJobs {
				if !inPkg(d, name) {
					continue
				}
				if runRace(bin, d, jobs[0], 3, 1) {
					nr.raceSeen[name] = true
					continue
				}
				// a race that needs a particular interleaving: many free-running repetitions of the witnesses,
				// and of their variants in which one side starts a little later (harnesses with a "stagger"
				// choice: which side takes a shared lock first decides whether the detector sees an access
				// made after an unlock as unordered)
				var all []witnessJob
				for _, j := range jobs {
					all = append(all, j)
					if _, has := j.W.Choices["stagger"]; has {
						for st := 1; st <= 2; st++ {
							w := *j.W
							w.Choices = map[string]int{}
							for k, v := range j.W.Choices {
								w.Choices[k] = v
							}
							w.Choices["stagger"] = st
							w.Order, w.Preempts = nil, nil
							all = append(all, witnessJob{ID: j.ID, W: &w})
						}
					}
				}
				for _, j := range all {
					if runRace(bin, d, j, 2, 150) {
						nr.raceSeen[name] = true
						break
					}
				}
			}
			// not seen free-running: replay the engine's schedule on an instrumented -race binary
			var pending []string
			for name, jobs := range raceJobs {
				if !inPkg(d, name) || nr.raceSeen[name] {
					continue
				}
				for _, j := range jobs {
					if len(j.W.Order) > 0 {
						pending = append(pending, name)
						break
					}
				}
			}
			if len(pending) > 0 {
				ovf2 := instrumentedOverlay(tmp, repl, harnessByPkg)
				bin2 := filepath.Join(tmp, "rs_"+sanitize(d)+".test")
				cmd := exec.Command("go", "test", "-race", "-c", "-vet=off", "-overlay", ovf2, "-o", bin2, "./"+d)
				cmd.Dir = repoDir
				cmd.Env = env
				if out, err := cmd.CombinedOutput(); err != nil {
					nr.schedErr = fmt.Sprintf("instrumented -race build ./%s: %v\n%s", d, err, tail(string(out), 1500))
				} else {
					for _, name := range pending {
						for _, j := range raceJobs[name] {
							if len(j.W.Order) > 0 && runRace(bin2, d, j, 2, 1) {
								nr.raceSeen[name] = true
								break
							}
						}
					}
				}
			}
		}
	}
	// schedule-dependent violations the free-running native run did not show: confirm with a binary built
	// from an instrumented copy of the package (verifSP before every synchronisation operation), which
	// holds the goroutine the engine preempted at the recorded operation (instrument.go)
	var schedJobs []witnessJob
	schedSeen := map[string]int{}
	for _, rep := range reports {
		for _, v := range rep.Violations {
			if !v.Sched || v.Witness == nil || v.Kind == "race" || len(v.Witness.Preempts) == 0 {
				continue
			}
			if ok, _ := nr.confirms(v); ok {
				continue
			}
			// a few witnesses per distinct violation are enough
			vk := rep.Name + "|" + v.Kind + "|" + v.Label + "|" + v.Site
			if schedSeen[vk] >= 3 {
				continue
			}
			schedSeen[vk]++
			schedJobs = append(schedJobs, witnessJob{ID: v.Witness.Notes["vid"], W: v.Witness})
		}
	}
	if os.Getenv("GOSYM_DEBUG") != "" {
		fmt.Fprintf(os.Stderr, "DEBUG sched confirmation jobs: %d\n", len(schedJobs))
	}
	if len(schedJobs) > 0 {
		ovf2 := instrumentedOverlay(tmp, repl, harnessByPkg)
		sjb, _ := json.Marshal(schedJobs)
		sjf := filepath.Join(tmp, "schedjobs.json")
		os.WriteFile(sjf, sjb, 0644)
		for d := range harnessByPkg {
			bin := filepath.Join(tmp, "s_"+sanitize(d)+".test")
			cmd := exec.Command("go", "test", "-c", "-vet=off", "-overlay", ovf2, "-o", bin, "./"+d)
			cmd.Dir = repoDir
			cmd.Env = env
			if out, err := cmd.CombinedOutput(); err != nil {
				nr.schedErr = fmt.Sprintf("instrumented build ./%s: %v\n%s", d, err, tail(string(out), 1500))
				continue
			}
			for try := 0; try < 3; try++ {
				// one process per job: a job that crashes the process (an uncaught panic in a goroutine of
				// the code under test) must not take the other jobs with it
				for ji, job := range schedJobs {
					one, _ := json.Marshal([]witnessJob{job})
					jf1 := filepath.Join(tmp, fmt.Sprintf("schedjob_%d.json", ji))
					os.WriteFile(jf1, one, 0644)
					outf := filepath.Join(tmp, fmt.Sprintf("schedout_%s_%d_%d.jsonl", sanitize(d), try, ji))
					run := exec.Command(bin, "-test.run", "^TestVerifReplay$", "-test.count=1", "-test.timeout=5m")
					run.Dir = filepath.Join(repoDir, d)
					run.Env = append(append([]string{}, env...), "VERIF_REPLAY="+jf1, "VERIF_OUT="+outf, "VERIF_SKIP=0")
					if try == 2 {
						run.Env = append(run.Env, "GOMAXPROCS=1")
					}
					o2, runErr := run.CombinedOutput()
					ob, _ := os.ReadFile(outf)
					got := false
					started := false
					for _, line := range strings.Split(string(ob), "\n") {
						if strings.Contains(line, "\"started\":true") {
							started = true
						}
						var r nativeRun
						if strings.TrimSpace(line) == "" || json.Unmarshal([]byte(line), &r) != nil || r.Trace == nil && r.Panic == "" && !r.Timeout {
							continue
						}
						rr := r
						if nr.schedResults == nil {
							nr.schedResults = map[string][]*nativeRun{}
						}
						nr.schedResults[r.ID] = append(nr.schedResults[r.ID], &rr)
						got = true
					}
					if !got && started && runErr != nil {
						if nr.schedResults == nil {
							nr.schedResults = map[string][]*nativeRun{}
						}
						nr.schedResults[job.ID] = append(nr.schedResults[job.ID], &nativeRun{ID: job.ID, Panic: "process crashed: " + tail(string(o2), 300)})
					}
				}
			}
		}
	}
	// compare path witnesses
	for id, p := range pathOf {
		r := nr.results[id]
		if r == nil {
			continue // harness lives in another package run
		}
		if why := compareTrace(p.Witness.Expect, r, p.Outcome); why != "" {
			wb, _ := json.Marshal(p.Witness)
			nr.mismatches = append(nr.mismatches, fmt.Sprintf("%s: %s witness=%s", id, why, tail(string(wb), 600)))
		} else {
			nr.validated++
		}
	}
	return nr
}

// instrumentedOverlay writes instrumented copies (verifSP before every synchronisation operation) of the
// harness packages' source files and returns an overlay file that adds them to repl.
func instrumentedOverlay(tmp string, repl map[string]string, harnessByPkg map[string][]string) string {
	ovf2 := filepath.Join(tmp, "overlay_sched.json")
	if _, err := os.Stat(ovf2); err == nil {
		return ovf2
	}
	repl2 := map[string]string{}
	for k, v := range repl {
		repl2[k] = v
	}
	n := 0
	for d := range harnessByPkg {
		ents, _ := os.ReadDir(filepath.Join(repoDir, d))
		for _, e := range ents {
			nm := e.Name()
			if e.IsDir() || !strings.HasSuffix(nm, ".go") || strings.HasSuffix(nm, "_test.go") {
				continue
			}
			full := filepath.Join(repoDir, d, nm)
			src, err := os.ReadFile(full)
			if err != nil {
				continue
			}
			rel, _ := filepath.Rel(repoDir, full)
			if out := instrumentSource(rel, src); out != nil {
				n++
				f := filepath.Join(tmp, fmt.Sprintf("ins%d.go", n))
				os.WriteFile(f, out, 0644)
				repl2[full] = f
			}
		}
	}
	ovb2, _ := json.Marshal(map[string]interface{}{"Replace": repl2})
	os.WriteFile(ovf2, ovb2, 0644)
	return ovf2
}

func tail(s string, n int) string {
	if len(s) > n {
		return "..." + s[len(s)-n:]
	}
	return s
}

func compareTrace(expect []TraceEvent, r *nativeRun, outcome string) string {
	if r.Timeout {
		if outcome == "deadlock" {
			return ""
		}
		return "native run timed out"
	}
	var exp []TraceEvent
	wantPanic := false
	for _, e := range expect {
		if e.Kind == "panic" {
			wantPanic = true
			continue
		}
		if e.Kind == "deadlock" {
			continue
		}
		exp = append(exp, e)
	}
	got := r.Trace
	for i := 0; i < len(exp); i++ {
		if i >= len(got) {
			return fmt.Sprintf("native trace shorter: missing %v (native panic=%q)", exp[i], r.Panic)
		}
		e, g := exp[i], got[i]
		if e.Kind != g.Kind || e.Label != g.Label {
			return fmt.Sprintf("event %d: engine %s/%s vs native %s/%s", i, e.Kind, e.Label, g.Kind, g.Label)
		}
		if e.Kind == "assert" && e.OK != g.OK {
			return fmt.Sprintf("assert %q: engine %v vs native %v", e.Label, e.OK, g.OK)
		}
		if e.Kind == "note" && e.Val != "?" && e.Val != g.Val {
			return fmt.Sprintf("note %q: engine %q vs native %q", e.Label, e.Val, g.Val)
		}
	}
	if len(got) > len(exp) && !wantPanic && outcome != "stop" {
		return fmt.Sprintf("native trace longer: extra %v", got[len(exp)])
	}
	if wantPanic != (r.Panic != "") {
		return fmt.Sprintf("panic: engine %v vs native %q", wantPanic, r.Panic)
	}
	return ""
}

// confirms: does the native run of a violation witness show the violation?
func (nr *nativeResult) confirms(v *Violation) (bool, string) {
	if v.Kind == "race" {
		if nr.raceSeen[v.Harness] {
			return true, ""
		}
		return false, "go test -race reported no data race for this harness"
	}
	id := v.Witness.Notes["vid"]
	r := nr.results[id]
	if r == nil {
		// the witness chosen for this violation cannot run natively (e.g. it waits out a virtual-time
		// timeout): another path of the same harness whose native run shows the same assertion failing
		// confirms it just as well
		if v.Kind == "assert" {
			for id2, r2 := range nr.results {
				if strings.HasPrefix(id2, v.Harness+"/") {
					if ok2, _ := confirmsRun(v, r2); ok2 {
						return true, ""
					}
				}
			}
		}
		return false, "no native result"
	}
	ok, why := confirmsRun(v, r)
	if !ok {
		for _, sr := range nr.schedResults[id] {
			if ok2, _ := confirmsRun(v, sr); ok2 {
				return true, ""
			}
		}
		// timing decides which of the harness's alternatives shows the failure natively: a native run of
		// another path of the same harness in which the same assertion fails is a failing run of the real
		// code all the same
		if v.Kind == "assert" {
			for id2, r2 := range nr.results {
				if strings.HasPrefix(id2, v.Harness+"/") {
					if ok2, _ := confirmsRun(v, r2); ok2 {
						return true, ""
					}
				}
			}
		}
		if nr.schedErr != "" {
			why += "; " + nr.schedErr
		}
	}
	return ok, why
}

func confirmsRun(v *Violation, r *nativeRun) (bool, string) {
	switch v.Kind {
	case "assert":
		for _, e := range r.Trace {
			if e.Kind == "assert" && e.Label == v.Label && !e.OK {
				return true, ""
			}
		}
		return false, fmt.Sprintf("assert %q held natively (panic=%q)", v.Label, r.Panic)
	case "panic":
		if r.Panic != "" {
			return true, ""
		}
		return false, "no native panic"
	case "deadlock":
		if r.Timeout {
			return true, ""
		}
		return false, "native run terminated"
	}
	return true, ""
}

// ---------------------------------------------------------------------------------------
// evidence

func writeEvidence(prop, tier string, seed int, reports []*HarnessReport, nat *nativeResult, hfiles []*harnessFile, wall, loadS float64, confirmed int, known map[string]bool, problems []string) {
	states, trans, obl, dis := 0, 0, 0, 0
	funcs := map[string]bool{}
	var samples []interface{}
	var harnesses []interface{}
	for _, rep := range reports {
		states += rep.Completed
		trans += rep.Decisions
		obl += rep.Obligations
		dis += rep.Discharged
		for f := range rep.Funcs {
			funcs[f] = true
		}
		harnesses = append(harnesses, map[string]interface{}{"name": rep.Name, "paths": rep.Completed, "infeasible_prefixes": rep.Infeasible,
			"obligations": rep.Obligations, "discharged": rep.Discharged, "wall_s": round2(rep.WallS)})
		k := 0
		for _, p := range rep.Paths {
			if p.Witness != nil && k < 2 {
				samples = append(samples, map[string]interface{}{"harness": rep.Name, "decisions": decString(p.Decisions), "outcome": p.Outcome,
					"inputs": p.Witness.Values, "choices": p.Witness.Choices, "json": p.Witness.JSON, "asserts": p.Witness.Expect})
				k++
			}
		}
	}
	var assumes, bounds []string
	for _, h := range hfiles {
		assumes = append(assumes, h.assumes...)
		bounds = append(bounds, h.bounds...)
	}
	assumes = append(assumes, engineAssumptions...)
	cov := map[string]interface{}{
		"states":                        states,
		"transitions":                   trans,
		"traces_validated_against_impl": 0,
		"samples":                       samples,
		"obligations":                   obl,
		"discharged":                    dis,
		"functions_encoded":             sortedKeys(funcs),
		"bounds":                        bounds,
		"harnesses":                     harnesses,
		"queries":                       map[string]int64{"sat": gStats.Sat, "unsat": gStats.Unsat, "unknown": gStats.Unknown},
		"cross_check_queries":           map[string]int64{"sat": gStats.XSat, "unsat": gStats.XUnsat, "no_opinion": gStats.XUnknown, "skipped_string_or_fp": gStats.XSkipped},
		"solver_time_s":                 map[string]float64{"cvc5": round2(float64(gStats.TimeNs) / 1e9), "z3": round2(float64(gStats.XTimeNs) / 1e9)},
		"load_and_ssa_build_s":          round2(loadS),
		"explanation":                   "states = feasible symbolic paths of the real SSA explored to completion; transitions = symbolic branch decisions; obligations = vAssert queries (path condition AND NOT claim), discharged = answered unsat by cvc5 (z3 cross-check where it has an opinion)",
		"problems":                      problems,
	}
	if nat != nil {
		cov["traces_validated_against_impl"] = nat.validated
		cov["witnesses_not_coexecutable"] = nat.skipped
		cov["witnesses_without_native_result"] = nat.lost
	}
	var ks []string
	for k := range known {
		ks = append(ks, k)
	}
	sort.Strings(ks)
	cov["known_findings_seen"] = ks
	if len(samples) == 0 {
		cov["samples"] = []interface{}{map[string]interface{}{"note": "no completed path"}}
	}
	if states == 0 {
		cov["states"] = 0
	}
	ev := map[string]interface{}{
		"property_id": prop, "tier": tier, "seed": seed, "level": "model_checking",
		"coverage": cov, "assumptions": assumes, "wall_s": round2(wall), "violations": confirmed,
	}
	b, _ := json.MarshalIndent(ev, "", " ")
	if alt := os.Getenv("GOSYM_EVIDENCE"); alt != "" {
		os.WriteFile(alt, b, 0644)
		return
	}
	os.MkdirAll(filepath.Join(verifDir, "evidence"), 0755)
	os.WriteFile(filepath.Join(verifDir, "evidence", prop+".json"), b, 0644)
}

func round2(f float64) float64 { return math.Round(f*100) / 100 }

var engineAssumptions = []string{
	"go/packages + go/ssa (x/tools v0.29.0) translate /repo's current source faithfully; the gosym interpreter follows the Go spec for the ~35 SSA instruction kinds it implements and aborts (engine error, no verdict) on anything else",
	"standard-library leaves are contracts (DESIGN 2.6): strings/strconv/fmt verbs, errors.Is/As, sync primitives with happens-before edges, time.Now = arbitrary non-decreasing instant, timers fire nondeterministically at blocking points, crypto/rand = fresh symbolic bytes",
	"encoding/json is modelled at JSON-tree level from go/types struct tags (DESIGN 2.7); text<->tree (tokenizer/printer) is trusted",
	"cvc5 1.0.3 decides; z3 4.x cross-checks assertion queries where it has an opinion within 20 s; every completed path's witness is co-executed on the natively compiled code and must reproduce the engine's assert/reach trace",
}
