package main

// Lazy symbolic JSON documents (DESIGN 2.8).

import (
	"fmt"
	"go/types"

	"golang.org/x/tools/go/ssa"
)

func (ex *Exec) newLazy(name string, depth int) *JNode {
	return &JNode{kind: JLazy, lz: &lazyInfo{name: name, depth: depth, absent: map[string]bool{}}}
}

type lazyOpt struct {
	kind  JKind
	float bool
}

// forceKind materialises the kind of a lazy node. want<0: any kind (interface{} target).
func (ex *Exec) forceKind(n *JNode, site ssa.Instruction, want JKind) {
	if n.kind != JLazy {
		return
	}
	var opts []lazyOpt
	switch want {
	case JStr:
		opts = []lazyOpt{{JStr, false}, {JNull, false}, {JNum, false}}
	case JBool:
		opts = []lazyOpt{{JBool, false}, {JNull, false}, {JStr, false}}
	case JNum:
		opts = []lazyOpt{{JNum, false}, {JNum, true}, {JNull, false}, {JStr, false}}
	case JObj:
		opts = []lazyOpt{{JObj, false}, {JNull, false}, {JStr, false}, {JArr, false}}
	case JArr:
		opts = []lazyOpt{{JArr, false}, {JNull, false}, {JStr, false}}
	default:
		opts = []lazyOpt{{JStr, false}, {JNum, false}, {JNum, true}, {JBool, false}, {JNull, false}, {JObj, false}, {JArr, false}}
	}
	// drop options excluded by earlier partial inspections (lazy interface values)
	var kept []lazyOpt
	for _, o := range opts {
		if o.kind == JNull && n.lz.nonNull {
			continue
		}
		if n.lz.excluded[o.kind] {
			continue
		}
		kept = append(kept, o)
	}
	if len(kept) == 0 {
		panic(infeasibleAbort())
	}
	opts = kept
	k := ex.choose(len(opts), func(int) *Term { return nil }, site)
	ex.setKind(n, opts[k], site)
}

// setKind materialises node n as the given kind (no fork).
func (ex *Exec) setKind(n *JNode, o lazyOpt, site ssa.Instruction) {
	deep := n.lz.depth > 0
	nm := n.lz.name
	n.kind = o.kind
	switch o.kind {
	case JStr:
		s := ex.namedVar("j:"+nm, SStr, "json-string")
		ex.assume(printable(s, ex.jsonStrMax()))
		n.s = s
	case JBool:
		n.b = ex.namedVar("j:"+nm, SBool, "json-bool")
	case JNum:
		if o.float {
			f := ex.namedVar("j:"+nm+".f", SF64, "json-float")
			// a finite non-integral literal
			ex.assume(tNot(tFIsNaN(f)))
			ex.assume(tNot(newTerm("fp.isInfinite", SBool, f)))
			ex.assume(tNot(tEq(newTerm("fp.roundToIntegral_RTZ", SF64, f), f)))
			n.num = f
			n.isFloatLit = true
		} else {
			x := ex.namedVar("j:"+nm, SInt, "json-int")
			ex.assume(tIntCmp(">=", x, mkInt(-(1 << 53))))
			ex.assume(tIntCmp("<=", x, mkInt(1<<53)))
			n.num = x
		}
	case JObj:
		if !deep {
			n.closed = true
		}
	case JArr:
		ln := 0
		if deep {
			ln = ex.choose(3, func(int) *Term { return nil }, site)
		}
		for i := 0; i < ln; i++ {
			n.arr = append(n.arr, ex.newLazy(fmt.Sprintf("%s[%d]", nm, i), n.lz.depth-1))
		}
	}
}

func (ex *Exec) jsonStrMax() int {
	if v, ok := ex.hctx["jsonStrMax"].(int); ok {
		return v
	}
	return 12
}

func printable(s *Term, max int) *Term {
	re := newTerm("in_re_printable", SBool, s)
	return tAnd(re, tIntCmp("<=", tStrLen(s), mkInt(int64(max))))
}

func (ex *Exec) forceArr(n *JNode, site ssa.Instruction) {}

// lazyMember asks an open lazy object for member key (fork present/absent, memoised).
func (ex *Exec) lazyMember(n *JNode, key string, site ssa.Instruction) *JNode {
	if c := n.member(key); c != nil {
		return c
	}
	if n.closed || n.lz == nil || n.lz.absent[key] {
		return nil
	}
	k := ex.choose(2, func(int) *Term { return nil }, site)
	if k == 1 {
		n.lz.absent[key] = true
		return nil
	}
	c := ex.newLazy(n.lz.name+"."+key, n.lz.depth-1)
	n.keys = append(n.keys, mkStr(key))
	n.vals = append(n.vals, c)
	return c
}

// lazyClose fixes the key set of a lazy object: the keys decided so far plus at most one
// further member with a symbolic name.
func (ex *Exec) lazyClose(n *JNode, site ssa.Instruction) {
	if n.closed || n.lz == nil {
		n.closed = true
		return
	}
	n.closed = true
	if n.lz.depth <= 0 || ex.hctx["jsonNoExtra"] == true {
		return
	}
	k := ex.choose(2, func(int) *Term { return nil }, site)
	if k == 0 {
		return
	}
	name := ex.namedVar("j:"+n.lz.name+".$key", SStr, "json-key")
	ex.assume(printable(name, 8))
	for _, key := range n.keys {
		ex.assume(tNot(tEq(name, key)))
	}
	for a := range n.lz.absent {
		ex.assume(tNot(tEq(name, mkStr(a))))
	}
	c := ex.newLazy(n.lz.name+".$extra", n.lz.depth-1)
	n.keys = append(n.keys, name)
	n.vals = append(n.vals, c)
}

func (ex *Exec) lazyMapSync(m *MapObj, site ssa.Instruction) {
	n := m.lazy
	for i, k := range n.keys {
		found := false
		for _, e := range m.entries {
			if e.k == Value(k) {
				found = true
				break
			}
			if a, ok := e.k.(*Term); ok {
				if as, ok := a.StrVal(); ok {
					if bs, ok := k.StrVal(); ok && as == bs {
						found = true
						break
					}
				}
			}
		}
		if found {
			continue
		}
		c := n.vals[i]
		slot := newPtr(ex.lazyIfaceOf(nil, site, c))
		m.entries = append(m.entries, &mapEntry{k: k, v: slot})
		if h, ok := hashKey(k); ok {
			m.idx[h] = len(m.entries) - 1
		}
	}
}

func (ex *Exec) lazyMapClose(m *MapObj, site ssa.Instruction) {
	if m.lazy == nil {
		return
	}
	ex.lazyClose(m.lazy, site)
	ex.lazyMapSync(m, site)
	m.lazy = nil
}

func (ex *Exec) lazyMapFind(m *MapObj, key Value, site ssa.Instruction) *mapEntry {
	kt, ok := key.(*Term)
	if !ok {
		panic(unsupported("lazy map key type"))
	}
	ks, isConst := kt.StrVal()
	if !isConst || m.lazy.closed {
		ex.lazyMapClose(m, site)
		return ex.mapFind(m, key, site)
	}
	c := ex.lazyMember(m.lazy, ks, site)
	if c == nil {
		return nil
	}
	ex.lazyMapSync(m, site)
	if i, ok := m.idx[hkey{"t", SStr, ks}]; ok {
		return m.entries[i]
	}
	return nil
}

// jsonTextEq gives tree meanings to the few byte-level comparisons the repo makes (DESIGN 2.7).
func (ex *Exec) jsonTextEq(n *JNode, s string) *Term {
	ex.forceKind(n, nil, -1)
	switch s {
	case "null":
		return mkBool(n.kind == JNull)
	case "{}":
		if n.kind != JObj {
			return tFalse
		}
		ex.lazyClose(n, nil)
		return mkBool(len(n.keys) == 0)
	case "[]":
		return mkBool(n.kind == JArr && len(n.arr) == 0)
	case "":
		return tFalse
	}
	if len(s) > 0 {
		first := s[0]
		ok := false
		for _, c := range jsonFirstChars(n) {
			if byte(c) == first {
				ok = true
			}
		}
		if !ok {
			return tFalse
		}
	}
	panic(unsupported(fmt.Sprintf("comparing JSON text with %q", s)))
}

func evalTerm(t *Term, model map[string]ModelVal) ModelVal {
	if t.IsConst() {
		m := ModelVal{Sort: t.Sort}
		switch t.Sort {
		case SBool:
			m.B = t.K.(bool)
		case SInt:
			m.I = t.K.(int64)
		case SF64, SF32:
			m.F = t.K.(float64)
		case SStr:
			m.S = t.K.(string)
		default:
			m.U = t.K.(uint64)
		}
		return m
	}
	if t.Op == "var" {
		if v, ok := model[t.K.(string)]; ok {
			return v
		}
	}
	if v, ok := model["#"+fmt.Sprintf("%p", t)]; ok {
		return v
	}
	return ModelVal{Sort: t.Sort}
}


// ---- lazy interface{} values: the JSON kind of a decoded value is decided only when the code
// distinguishes it (type assertion, comparison, printing) ----

var lazyIfaceType = types.NewNamed(types.NewTypeName(0, nil, "lazyJSONValue", nil), types.NewStruct(nil, nil), nil)

func isLazyIface(i Iface) bool { return i.t == lazyIfaceType }

// lazyIfaceOf returns the interface{} value for node n, deciding only null / non-null.
func (ex *Exec) lazyIfaceOf(fr *Frame, site ssa.Instruction, n *JNode) Value {
	if n.kind != JLazy {
		return ex.jsonToIface(fr, site, n)
	}
	if !n.lz.nonNull {
		if n.lz.excluded[JNull] {
			n.lz.nonNull = true
		} else if ex.choose(2, func(int) *Term { return nil }, site) == 1 {
			ex.setKind(n, lazyOpt{JNull, false}, site)
			return Iface{}
		} else {
			n.lz.nonNull = true
		}
	}
	return Iface{t: lazyIfaceType, v: n}
}

// resolveIface materialises a lazy interface value completely (fork over the remaining kinds).
func (ex *Exec) resolveIface(fr *Frame, site ssa.Instruction, i Iface) Iface {
	if !isLazyIface(i) {
		return i
	}
	n := i.v.(*JNode)
	ex.forceKind(n, site, -1)
	return ex.jsonToIface(fr, site, n).(Iface)
}

// lazyTypeAssert decides x.(T) for a lazy interface value: fork {kind matches T, kind differs}.
func (ex *Exec) lazyTypeAssert(fr *Frame, site ssa.Instruction, i Iface, asserted types.Type) (Value, bool) {
	n := i.v.(*JNode)
	if n.kind != JLazy {
		c := ex.jsonToIface(fr, site, n).(Iface)
		if types.Identical(c.t, asserted) {
			return c.v, true
		}
		return nil, false
	}
	var want JKind = -1
	float := false
	switch u := asserted.(type) {
	case *types.Basic:
		switch u.Kind() {
		case types.String:
			want = JStr
		case types.Bool:
			want = JBool
		case types.Float64:
			want = JNum
			float = true
		}
	case *types.Map:
		if isString(u.Key()) {
			if it, ok := u.Elem().Underlying().(*types.Interface); ok && it.NumMethods() == 0 {
				want = JObj
			}
		}
	case *types.Slice:
		if it, ok := u.Elem().Underlying().(*types.Interface); ok && it.NumMethods() == 0 {
			want = JArr
		}
	}
	_ = float
	if want < 0 || n.lz.excluded[want] {
		return nil, false // a JSON-decoded value never has this dynamic type
	}
	deep := n.lz.depth > 0
	_ = deep
	if ex.choose(2, func(int) *Term { return nil }, site) == 0 {
		if want == JNum {
			// integer or fractional literal: both decode to float64
			if ex.choose(2, func(int) *Term { return nil }, site) == 0 {
				ex.setKind(n, lazyOpt{JNum, false}, site)
			} else {
				ex.setKind(n, lazyOpt{JNum, true}, site)
			}
		} else {
			ex.setKind(n, lazyOpt{want, false}, site)
		}
		c := ex.jsonToIface(fr, site, n).(Iface)
		return c.v, true
	}
	if n.lz.excluded == nil {
		n.lz.excluded = map[JKind]bool{}
	}
	n.lz.excluded[want] = true
	return nil, false
}

// jsonSame: structural equality of two JSON trees; unresolved lazy nodes compare by identity,
// so comparing two readings of the same input document forks nothing.
func (ex *Exec) jsonSame(a, b *JNode, site ssa.Instruction) *Term {
	if a == b {
		return tTrue
	}
	if a.kind == JLazy {
		ex.forceKind(a, site, -1)
	}
	if b.kind == JLazy {
		ex.forceKind(b, site, -1)
	}
	if a.kind != b.kind {
		return tFalse
	}
	switch a.kind {
	case JNull:
		return tTrue
	case JBool:
		return tEq(a.b, b.b)
	case JStr:
		return tEq(a.s.(*Term), b.s.(*Term))
	case JNum:
		x, y := a.num, b.num
		if x.Sort == y.Sort {
			return tEq(x, y)
		}
		tf := func(t *Term, signed bool) *Term {
			switch {
			case t.Sort == SF64:
				return t
			case t.Sort == SInt:
				return tIntToF64(t)
			}
			return tBVToF64(t, signed)
		}
		return tEq(tf(x, a.numSigned), tf(y, b.numSigned))
	case JArr:
		if len(a.arr) != len(b.arr) {
			return tFalse
		}
		r := tTrue
		for i := range a.arr {
			r = tAnd(r, ex.jsonSame(a.arr[i], b.arr[i], site))
		}
		return r
	case JObj:
		if a.lz != nil && !a.closed {
			ex.lazyClose(a, site)
		}
		if b.lz != nil && !b.closed {
			ex.lazyClose(b, site)
		}
		if len(a.keys) != len(b.keys) {
			return tFalse
		}
		r := tTrue
		for i, k := range a.keys {
			ks, ok := k.StrVal()
			if !ok {
				// symbolic member name: must be the same term on the other side
				found := false
				for j, k2 := range b.keys {
					if k2 == k {
						r = tAnd(r, ex.jsonSame(a.vals[i], b.vals[j], site))
						found = true
					}
				}
				if !found {
					return tFalse
				}
				continue
			}
			c := b.member(ks)
			if c == nil {
				return tFalse
			}
			r = tAnd(r, ex.jsonSame(a.vals[i], c, site))
		}
		return r
	}
	return mkBool(a.kind == b.kind)
}

func (ex *Exec) nodeOfIface(fr *Frame, site ssa.Instruction, v Value) *JNode {
	i := v.(Iface)
	if i.t == nil {
		return jNull()
	}
	if isLazyIface(i) {
		return i.v.(*JNode)
	}
	n, e := ex.jsonMarshal(fr, site, i.v, i.t, nil)
	if e != nil {
		panic(unsupported("vSameJSON: value not encodable"))
	}
	return n
}
