package main

// sync, sync/atomic, time, context, crypto/rand intrinsics (DESIGN 2.6, 2.10).

import (
	"fmt"
	"go/types"

	"golang.org/x/tools/go/ssa"
)

type mutexState struct {
	locked  bool
	readers int
	wvc     VC // released by writers
	rvc     VC // released by readers
}

func (ex *Exec) mutex(p *Value) *mutexState {
	m, _ := ex.hctx["mutex"].(map[*Value]*mutexState)
	if m == nil {
		m = map[*Value]*mutexState{}
		ex.hctx["mutex"] = m
	}
	s := m[p]
	if s == nil {
		s = &mutexState{}
		m[p] = s
	}
	return s
}

type onceState struct {
	done bool
	vc   VC
}
type wgState struct {
	n  int64
	vc VC
}

func engState[T any](ex *Exec, kind string, p *Value) *T {
	m, _ := ex.hctx[kind].(map[*Value]*T)
	if m == nil {
		m = map[*Value]*T{}
		ex.hctx[kind] = m
	}
	s := m[p]
	if s == nil {
		s = new(T)
		m[p] = s
	}
	return s
}

func fieldIndex(t types.Type, name string) int {
	st := t.Underlying().(*types.Struct)
	for i := 0; i < st.NumFields(); i++ {
		if st.Field(i).Name() == name {
			return i
		}
	}
	panic("no field " + name + " in " + t.String())
}

func nilCheck(fr *Frame, site ssa.Instruction, v Value) *Value {
	p, _ := v.(*Value)
	if p == nil {
		fr.rtPanic(site, "invalid memory address or nil pointer dereference")
	}
	return p
}

func init() {
	lock := func(ex *Exec, fr *Frame, site ssa.Instruction, a []Value) Value {
		p := nilCheck(fr, site, a[0])
		ex.syncPoint(site)
		m := ex.mutex(p)
		ex.blockUntil(func() bool { return !m.locked && m.readers == 0 }, fmt.Sprintf("Lock %p", p), site)
		m.locked = true
		ex.cur.vc = ex.cur.vc.join(m.wvc).join(m.rvc)
		return nil
	}
	unlock := func(ex *Exec, fr *Frame, site ssa.Instruction, a []Value) Value {
		p := nilCheck(fr, site, a[0])
		m := ex.mutex(p)
		if !m.locked {
			panic(&goPanic{val: ex.makeError(mkStr("sync: unlock of unlocked mutex")), descr: "fatal error: sync: unlock of unlocked mutex", site: ex.site(site), rt: true})
		}
		ex.cur.tick()
		m.wvc = ex.cur.vc.clone()
		m.locked = false
		ex.syncPoint(site)
		return nil
	}
	reg("(*sync.Mutex).Lock", lock)
	reg("(*sync.Mutex).Unlock", unlock)
	reg("(*sync.RWMutex).Lock", lock)
	reg("(*sync.RWMutex).Unlock", unlock)
	reg("(*sync.Mutex).TryLock", func(ex *Exec, fr *Frame, site ssa.Instruction, a []Value) Value {
		p := nilCheck(fr, site, a[0])
		m := ex.mutex(p)
		if m.locked || m.readers > 0 {
			return tFalse
		}
		m.locked = true
		ex.cur.vc = ex.cur.vc.join(m.wvc).join(m.rvc)
		return tTrue
	})
	reg("(*sync.RWMutex).RLock", func(ex *Exec, fr *Frame, site ssa.Instruction, a []Value) Value {
		p := nilCheck(fr, site, a[0])
		ex.syncPoint(site)
		m := ex.mutex(p)
		ex.blockUntil(func() bool { return !m.locked }, fmt.Sprintf("RLock %p", p), site)
		m.readers++
		ex.cur.vc = ex.cur.vc.join(m.wvc)
		return nil
	})
	reg("(*sync.RWMutex).RUnlock", func(ex *Exec, fr *Frame, site ssa.Instruction, a []Value) Value {
		p := nilCheck(fr, site, a[0])
		m := ex.mutex(p)
		if m.readers == 0 {
			panic(&goPanic{val: ex.makeError(mkStr("sync: RUnlock of unlocked RWMutex")), descr: "fatal error: sync: RUnlock of unlocked RWMutex", site: ex.site(site), rt: true})
		}
		ex.cur.tick()
		m.rvc = m.rvc.join(ex.cur.vc)
		m.readers--
		ex.syncPoint(site)
		return nil
	})
	reg("(*sync.Once).Do", func(ex *Exec, fr *Frame, site ssa.Instruction, a []Value) Value {
		p := nilCheck(fr, site, a[0])
		o := engState[onceState](ex, "once", p)
		if o.done {
			ex.cur.vc = ex.cur.vc.join(o.vc)
			return nil
		}
		o.done = true
		ex.call(fr, site, a[1], nil, false)
		ex.cur.tick()
		o.vc = ex.cur.vc.clone()
		return nil
	})
	reg("(*sync.WaitGroup).Add", func(ex *Exec, fr *Frame, site ssa.Instruction, a []Value) Value {
		p := nilCheck(fr, site, a[0])
		w := engState[wgState](ex, "wg", p)
		d := int64(ex.concreteInt(a[1], "WaitGroup delta", site))
		w.n += d
		if w.n < 0 {
			panic(&goPanic{val: ex.makeError(mkStr("sync: negative WaitGroup counter")), descr: "sync: negative WaitGroup counter", site: ex.site(site)})
		}
		if d < 0 {
			ex.cur.tick()
			w.vc = w.vc.join(ex.cur.vc)
		}
		return nil
	})
	reg("(*sync.WaitGroup).Done", func(ex *Exec, fr *Frame, site ssa.Instruction, a []Value) Value {
		p := nilCheck(fr, site, a[0])
		w := engState[wgState](ex, "wg", p)
		w.n--
		if w.n < 0 {
			panic(&goPanic{val: ex.makeError(mkStr("sync: negative WaitGroup counter")), descr: "sync: negative WaitGroup counter", site: ex.site(site)})
		}
		ex.cur.tick()
		w.vc = w.vc.join(ex.cur.vc)
		ex.syncPoint(site)
		return nil
	})
	reg("(*sync.WaitGroup).Wait", func(ex *Exec, fr *Frame, site ssa.Instruction, a []Value) Value {
		p := nilCheck(fr, site, a[0])
		w := engState[wgState](ex, "wg", p)
		ex.blockUntil(func() bool { return w.n == 0 }, "WaitGroup.Wait", site)
		ex.cur.vc = ex.cur.vc.join(w.vc)
		return nil
	})

	// sync.Map: engine-side association list keyed by the map's address
	type smap struct {
		m  *MapObj
		vc VC
	}
	getSM := func(ex *Exec, p *Value) *smap {
		s := engState[smap](ex, "syncmap", p)
		if s.m == nil {
			s.m = ex.newMap(nil, nil)
		}
		return s
	}
	reg("(*sync.Map).Load", func(ex *Exec, fr *Frame, site ssa.Instruction, a []Value) Value {
		s := getSM(ex, nilCheck(fr, site, a[0]))
		ex.syncPoint(site)
		ex.cur.vc = ex.cur.vc.join(s.vc)
		if e := ex.mapFind(s.m, a[1], site); e != nil {
			return Tuple{*e.v, tTrue}
		}
		return Tuple{Iface{}, tFalse}
	})
	reg("(*sync.Map).Store", func(ex *Exec, fr *Frame, site ssa.Instruction, a []Value) Value {
		s := getSM(ex, nilCheck(fr, site, a[0]))
		ex.syncPoint(site)
		ex.cur.tick()
		s.vc = s.vc.join(ex.cur.vc)
		save := ex.raceOn
		ex.raceOn = false
		ex.mapStore(fr, site, s.m, a[1], a[2])
		ex.raceOn = save
		return nil
	})
	reg("(*sync.Map).Delete", func(ex *Exec, fr *Frame, site ssa.Instruction, a []Value) Value {
		s := getSM(ex, nilCheck(fr, site, a[0]))
		ex.syncPoint(site)
		ex.cur.tick()
		s.vc = s.vc.join(ex.cur.vc)
		save := ex.raceOn
		ex.raceOn = false
		ex.mapDelete(fr, site, s.m, a[1])
		ex.raceOn = save
		return nil
	})
	reg("(*sync.Map).LoadAndDelete", func(ex *Exec, fr *Frame, site ssa.Instruction, a []Value) Value {
		s := getSM(ex, nilCheck(fr, site, a[0]))
		ex.syncPoint(site)
		ex.cur.tick()
		s.vc = s.vc.join(ex.cur.vc)
		ex.cur.vc = ex.cur.vc.join(s.vc)
		save := ex.raceOn
		ex.raceOn = false
		defer func() { ex.raceOn = save }()
		if e := ex.mapFind(s.m, a[1], site); e != nil {
			v := *e.v
			ex.mapDelete(fr, site, s.m, a[1])
			return Tuple{v, tTrue}
		}
		return Tuple{Iface{}, tFalse}
	})
	reg("(*sync.Map).Range", func(ex *Exec, fr *Frame, site ssa.Instruction, a []Value) Value {
		s := getSM(ex, nilCheck(fr, site, a[0]))
		ex.cur.vc = ex.cur.vc.join(s.vc)
		snap := append([]*mapEntry{}, s.m.entries...)
		for _, e := range snap {
			r := ex.call(fr, site, a[1], []Value{e.k, *e.v}, false)
			if !ex.branch(r.(*Term), site) {
				break
			}
		}
		return nil
	})

	// ---- atomics: typed wrappers hold their value in field "v" ----
	atomicVC := func(ex *Exec, p *Value) {
		s := engState[onceState](ex, "atomicvc", p)
		ex.cur.tick()
		ex.cur.vc = ex.cur.vc.join(s.vc)
		s.vc = ex.cur.vc.clone()
	}
	vfield := func(fr *Frame, site ssa.Instruction, recv Value, tname string) *Value {
		p := nilCheck(fr, site, recv)
		st := (*p).(Struct)
		return &st[len(st)-1] // v is the last field of atomic.Int64/Int32/Uint64/Bool/Uint32
	}
	for _, tn := range []string{"Int64", "Int32", "Uint64", "Uint32"} {
		tn := tn
		reg("(*sync/atomic."+tn+").Add", func(ex *Exec, fr *Frame, site ssa.Instruction, a []Value) Value {
			ex.syncPoint(site)
			f := vfield(fr, site, a[0], tn)
			atomicVC(ex, f)
			cur, d := (*f).(*Term), a[1].(*Term)
			var nv *Term
			if cur.Sort == SInt || d.Sort == SInt {
				cur, d = ex.coerceInts(cur, d, true)
				nv = tIntAdd(cur, d)
			} else {
				nv = tBVAdd(cur, d)
			}
			*f = nv
			return nv
		})
		reg("(*sync/atomic."+tn+").Load", func(ex *Exec, fr *Frame, site ssa.Instruction, a []Value) Value {
			ex.syncPoint(site)
			f := vfield(fr, site, a[0], tn)
			atomicVC(ex, f)
			return *f
		})
		reg("(*sync/atomic."+tn+").Store", func(ex *Exec, fr *Frame, site ssa.Instruction, a []Value) Value {
			ex.syncPoint(site)
			f := vfield(fr, site, a[0], tn)
			atomicVC(ex, f)
			*f = a[1]
			return nil
		})
		reg("(*sync/atomic."+tn+").CompareAndSwap", func(ex *Exec, fr *Frame, site ssa.Instruction, a []Value) Value {
			ex.syncPoint(site)
			f := vfield(fr, site, a[0], tn)
			atomicVC(ex, f)
			if ex.branch(tEq((*f).(*Term), a[1].(*Term)), site) {
				*f = a[2]
				return tTrue
			}
			return tFalse
		})
	}
	reg("(*sync/atomic.Bool).Load", func(ex *Exec, fr *Frame, site ssa.Instruction, a []Value) Value {
		ex.syncPoint(site)
		f := vfield(fr, site, a[0], "Bool")
		atomicVC(ex, f)
		return tNot(tEq((*f).(*Term), mkBV(SBV32, 0)))
	})
	reg("(*sync/atomic.Bool).Store", func(ex *Exec, fr *Frame, site ssa.Instruction, a []Value) Value {
		ex.syncPoint(site)
		f := vfield(fr, site, a[0], "Bool")
		atomicVC(ex, f)
		*f = tIte(a[1].(*Term), mkBV(SBV32, 1), mkBV(SBV32, 0))
		return nil
	})
	reg("(*sync/atomic.Bool).CompareAndSwap", func(ex *Exec, fr *Frame, site ssa.Instruction, a []Value) Value {
		ex.syncPoint(site)
		f := vfield(fr, site, a[0], "Bool")
		atomicVC(ex, f)
		cur := tNot(tEq((*f).(*Term), mkBV(SBV32, 0)))
		if ex.branch(tEq(cur, a[1].(*Term)), site) {
			*f = tIte(a[2].(*Term), mkBV(SBV32, 1), mkBV(SBV32, 0))
			return tTrue
		}
		return tFalse
	})
	reg("(*sync/atomic.Value).Load", func(ex *Exec, fr *Frame, site ssa.Instruction, a []Value) Value {
		ex.syncPoint(site)
		p := nilCheck(fr, site, a[0])
		f := &(*p).(Struct)[0]
		atomicVC(ex, f)
		return *f
	})
	reg("(*sync/atomic.Value).Store", func(ex *Exec, fr *Frame, site ssa.Instruction, a []Value) Value {
		ex.syncPoint(site)
		p := nilCheck(fr, site, a[0])
		f := &(*p).(Struct)[0]
		atomicVC(ex, f)
		if a[1].(Iface).t == nil {
			panic(&goPanic{val: ex.makeError(mkStr("sync/atomic: store of nil value into Value")), descr: "sync/atomic: store of nil value into Value", site: ex.site(site)})
		}
		*f = a[1]
		return nil
	})
	for _, w := range []struct {
		n string
		s Sort
	}{{"Uint64", SBV64}, {"Int64", SBV64}, {"Int32", SBV32}, {"Uint32", SBV32}} {
		reg("sync/atomic.Add"+w.n, func(ex *Exec, fr *Frame, site ssa.Instruction, a []Value) Value {
			ex.syncPoint(site)
			p := nilCheck(fr, site, a[0])
			atomicVC(ex, p)
			nv := tBVAdd((*p).(*Term), a[1].(*Term))
			*p = nv
			return nv
		})
		reg("sync/atomic.Load"+w.n, func(ex *Exec, fr *Frame, site ssa.Instruction, a []Value) Value {
			ex.syncPoint(site)
			p := nilCheck(fr, site, a[0])
			atomicVC(ex, p)
			return *p
		})
		reg("sync/atomic.Store"+w.n, func(ex *Exec, fr *Frame, site ssa.Instruction, a []Value) Value {
			ex.syncPoint(site)
			p := nilCheck(fr, site, a[0])
			atomicVC(ex, p)
			*p = a[1]
			return nil
		})
	}

	// ---- time: Time is {wall, ext, loc}; the engine keeps nanoseconds in ext, wall = 0 ----
	reg("time.Now", func(ex *Exec, fr *Frame, site ssa.Instruction, a []Value) Value {
		return ex.timeNow()
	})
	reg("(time.Time).Sub", func(ex *Exec, fr *Frame, site ssa.Instruction, a []Value) Value {
		return tmSub(a[0].(Struct)[1].(*Term), a[1].(Struct)[1].(*Term))
	})
	reg("time.Since", func(ex *Exec, fr *Frame, site ssa.Instruction, a []Value) Value {
		n := ex.timeNow()
		return tmSub(n[1].(*Term), a[0].(Struct)[1].(*Term))
	})
	reg("time.Until", func(ex *Exec, fr *Frame, site ssa.Instruction, a []Value) Value {
		n := ex.timeNow()
		return tmSub(a[0].(Struct)[1].(*Term), n[1].(*Term))
	})
	reg("(time.Time).UnixNano", func(ex *Exec, fr *Frame, site ssa.Instruction, a []Value) Value {
		return a[0].(Struct)[1]
	})
	reg("(time.Time).UnixMilli", func(ex *Exec, fr *Frame, site ssa.Instruction, a []Value) Value {
		return newTerm("div", SInt, tmInt(a[0].(Struct)[1].(*Term)), mkInt(1000000))
	})
	reg("(time.Time).Add", func(ex *Exec, fr *Frame, site ssa.Instruction, a []Value) Value {
		t := copyVal(a[0]).(Struct)
		t[1] = tIntAdd(tmInt(t[1].(*Term)), tmInt(a[1].(*Term)))
		return t
	})
	reg("(time.Time).After", func(ex *Exec, fr *Frame, site ssa.Instruction, a []Value) Value {
		return tIntCmp("<", tmInt(a[1].(Struct)[1].(*Term)), tmInt(a[0].(Struct)[1].(*Term)))
	})
	reg("(time.Time).Before", func(ex *Exec, fr *Frame, site ssa.Instruction, a []Value) Value {
		return tIntCmp("<", tmInt(a[0].(Struct)[1].(*Term)), tmInt(a[1].(Struct)[1].(*Term)))
	})
	reg("(time.Time).IsZero", func(ex *Exec, fr *Frame, site ssa.Instruction, a []Value) Value {
		return tEq(tmInt(a[0].(Struct)[1].(*Term)), mkInt(0))
	})
	reg("(time.Time).Format", func(ex *Exec, fr *Frame, site ssa.Instruction, a []Value) Value {
		return ex.fresh("timefmt", SStr)
	})
	reg("(time.Time).UTC", func(ex *Exec, fr *Frame, site ssa.Instruction, a []Value) Value { return a[0] })
	reg("(time.Time).Local", func(ex *Exec, fr *Frame, site ssa.Instruction, a []Value) Value { return a[0] })
	reg("(time.Duration).String", func(ex *Exec, fr *Frame, site ssa.Instruction, a []Value) Value {
		return ex.fresh("durfmt", SStr)
	})
	reg("time.After", func(ex *Exec, fr *Frame, site ssa.Instruction, a []Value) Value {
		c := ex.newChan(1, ex.eng.lookupType("time", "Time"))
		c.timer = true
		ex.recordEnv("time.After", a[0])
		ev := &envEvent{label: fmt.Sprintf("timer#%d", c.id), armed: true}
		ex.setDeadline(ev, a[0])
		ev.fire = func() {
			ev.armed = false
			c.buf = append(c.buf, ex.timeNow())
		}
		ex.addEnvEvent(ev)
		return c
	})
	reg("time.Sleep", func(ex *Exec, fr *Frame, site ssa.Instruction, a []Value) Value {
		ex.recordEnv("time.Sleep", a[0])
		// sleeping = waiting for a timer: the goroutine resumes when virtual time has advanced
		fired := false
		ev := &envEvent{label: "sleep", armed: true}
		ex.setDeadline(ev, a[0])
		ev.fire = func() {
			ev.armed = false
			fired = true
		}
		ex.addEnvEvent(ev)
		ex.blockUntil(func() bool { return fired }, "time.Sleep", site)
		return nil
	})
	reg("time.NewTicker", func(ex *Exec, fr *Frame, site ssa.Instruction, a []Value) Value {
		tt := ex.eng.lookupType("time", "Ticker")
		c := ex.newChan(1, ex.eng.lookupType("time", "Time"))
		c.timer = true
		st := zero(tt).(Struct)
		st[fieldIndex(tt, "C")] = c
		p := newPtr(st)
		ev := &envEvent{label: fmt.Sprintf("ticker#%d", c.id), armed: ex.hctx["tickersOn"] == true}
		ev.fire = func() {
			ev.fires++
			if ev.fires >= 2 {
				ev.armed = false
			}
			if len(c.buf) < 1 {
				c.buf = append(c.buf, ex.timeNow())
			}
		}
		ex.addEnvEvent(ev)
		engState[envEvent](ex, "tickerEv", p).fire = func() { ev.armed = false }
		return p
	})
	reg("(*time.Ticker).Stop", func(ex *Exec, fr *Frame, site ssa.Instruction, a []Value) Value {
		p := nilCheck(fr, site, a[0])
		if e := engState[envEvent](ex, "tickerEv", p); e.fire != nil {
			e.fire()
		}
		return nil
	})
	reg("time.AfterFunc", func(ex *Exec, fr *Frame, site ssa.Instruction, a []Value) Value {
		tt := ex.eng.lookupType("time", "Timer")
		p := newPtr(zero(tt))
		fn := a[1]
		ev := &envEvent{label: "afterfunc", armed: true}
		ev.fire = func() {
			ev.armed = false
			ex.call(nil, site, fn, nil, false)
		}
		ex.addEnvEvent(ev)
		engState[envEvent](ex, "timerEv", p).fire = func() { ev.armed = false }
		st := engState[envEvent](ex, "timerEv", p)
		st.armed = true
		return p
	})
	reg("(*time.Timer).Stop", func(ex *Exec, fr *Frame, site ssa.Instruction, a []Value) Value {
		p := nilCheck(fr, site, a[0])
		e := engState[envEvent](ex, "timerEv", p)
		was := e.armed
		if e.fire != nil {
			e.fire()
		}
		e.armed = false
		return mkBool(was)
	})

	// ---- context ----
	reg("context.WithValue", func(ex *Exec, fr *Frame, site ssa.Instruction, a []Value) Value {
		parent := a[0].(Iface)
		if parent.t == nil {
			panic(&goPanic{val: ex.makeError(mkStr("cannot create context from nil parent")), descr: "cannot create context from nil parent", site: ex.site(site)})
		}
		key := a[1].(Iface)
		if key.t == nil {
			panic(&goPanic{val: ex.makeError(mkStr("nil key")), descr: "nil key", site: ex.site(site)})
		}
		if !types.Comparable(key.t) {
			panic(&goPanic{val: ex.makeError(mkStr("key is not comparable")), descr: "key is not comparable", site: ex.site(site)})
		}
		t := ex.eng.lookupType("context", "valueCtx")
		return Iface{t: types.NewPointer(t), v: newPtr(Struct{parent, key, a[2]})}
	})
	reg("context.WithTimeout", func(ex *Exec, fr *Frame, site ssa.Instruction, a []Value) Value {
		r := ex.ctxWithDeadline(fr, site, a[0])
		evs := ex.envEvents()
		ex.setDeadline(evs[len(evs)-1], a[1])
		return r
	})
	reg("context.WithDeadline", func(ex *Exec, fr *Frame, site ssa.Instruction, a []Value) Value {
		return ex.ctxWithDeadline(fr, site, a[0])
	})
	reg("context.contextName", func(ex *Exec, fr *Frame, site ssa.Instruction, a []Value) Value {
		return mkStr("ctx")
	})

	// ---- crypto/rand ----
	reg("crypto/rand.Read", func(ex *Exec, fr *Frame, site ssa.Instruction, a []Value) Value {
		s := a[0].(Slice)
		if ex.hctx["randConcrete"] == true {
			// distinct concrete bytes per call (harness asked for concrete session ids)
			n, _ := ex.hctx["randCalls"].(int)
			ex.hctx["randCalls"] = n + 1
			for i := 0; i < s.n; i++ {
				s.a[i] = mkBV(SBV8, uint64((n*37+i*11+5)&0xff))
			}
			ex.hctx["usedCryptoRand"] = true
			return Tuple{bvInt(int64(s.n)), Iface{}}
		}
		for i := 0; i < s.n; i++ {
			s.a[i] = ex.namedVar("rand", SBV8, "rand")
		}
		ex.hctx["usedCryptoRand"] = true
		return Tuple{bvInt(int64(s.n)), Iface{}}
	})
}

func (ex *Exec) recordEnv(kind string, v Value) {
	ex.trace = append(ex.trace, TraceEvent{Kind: "envcall", Label: kind, Val: valString(v)})
	l, _ := ex.hctx["envcalls"].([]Value)
	ex.hctx["envcalls"] = append(l, v)
}

// timeNow returns an arbitrary non-decreasing instant (DESIGN 2.6); nanoseconds as an Int-backed value.
func (ex *Exec) timeNow() Struct {
	t := ex.namedVar("now", SInt, "clock")
	t.HasRng, t.Lo, t.Hi = true, 0, 1<<62
	if last, ok := ex.hctx["lastNow"].(*Term); ok {
		ex.assume(tIntCmp("<=", last, t))
	} else {
		ex.assume(tIntCmp("<=", mkInt(0), t))
	}
	// keep instants far from overflow: < 2^62 ns
	ex.assume(tIntCmp("<", t, mkInt(1<<62)))
	ex.hctx["lastNow"] = t
	return Struct{mkBV(SBV64, 0), t, nilPtr}
}

func tmInt(t *Term) *Term {
	if t.Sort == SInt {
		return t
	}
	return tBVToInt(t, true)
}
func tmSub(a, b *Term) *Term { return tIntSub(tmInt(a), tmInt(b)) }

// ctxWithDeadline = WithCancel(parent) whose cancel may also be triggered by the environment
// (deadline expiry) with context.DeadlineExceeded.
// setDeadline gives an event a virtual deadline when the duration is concrete.
func (ex *Exec) setDeadline(ev *envEvent, d Value) {
	if t, ok := d.(*Term); ok {
		if u, ok := t.BVVal(); ok {
			ev.deadline, ev.hasDeadline = ex.vtime+int64(u), true
		} else if i, ok := t.IntVal(); ok {
			ev.deadline, ev.hasDeadline = ex.vtime+i, true
		}
	}
}

func (ex *Exec) ctxWithDeadline(fr *Frame, site ssa.Instruction, parent Value) Value {
	wc := ex.eng.lookupFunc("context", "WithCancel")
	r := ex.call(fr, site, wc, []Value{parent}, false).(Tuple)
	ctx := r[0].(Iface)
	// ctx is *cancelCtx; fire -> c.cancel(true, DeadlineExceeded, nil)
	cancelM := ex.findMethod(ctx.t, "cancel")
	de := *ex.globalAddr(ex.eng.lookupGlobal("context", "DeadlineExceeded"))
	ev := &envEvent{label: "ctx-deadline", armed: true}
	ev.fire = func() {
		ev.armed = false
		ex.call(nil, site, cancelM, []Value{ctx.v, tTrue, de, Iface{}}, false)
	}
	ex.addEnvEvent(ev)
	return Tuple{ctx, r[1]}
}
