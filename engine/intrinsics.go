package main

// Intrinsics: contracts for standard-library leaves (DESIGN 2.6).

import (
	"fmt"
	"go/types"
	"strconv"
	"strings"

	"golang.org/x/tools/go/ssa"
)

type intrinsic func(ex *Exec, fr *Frame, site ssa.Instruction, args []Value) Value

var intrinsics = map[string]intrinsic{}

func reg(name string, f intrinsic) { intrinsics[name] = f }

func (e *Engine) intrinsicFor(fn *ssa.Function) intrinsic {
	name := fn.String()
	if h, ok := intrinsics[name]; ok {
		return h
	}
	// harness primitives: functions named v* in module packages
	if inModule(fn) && fn.Parent() == nil && fn.Signature.Recv() == nil {
		if h, ok := prims[fn.Name()]; ok {
			return h
		}
	}
	return nil
}

// ifaceIntrinsic: method calls on interface values whose dynamic type is engine-defined.
func (ex *Exec) ifaceIntrinsic(recv Iface, m *types.Func) Value {
	return nil
}

func (e *Engine) lookupType(pkg, name string) types.Type {
	p := e.P.pkgs[pkg]
	if p == nil {
		panic(unsupported("package not loaded: " + pkg))
	}
	o := p.Pkg.Scope().Lookup(name)
	if o == nil {
		panic(unsupported("type not found: " + pkg + "." + name))
	}
	return o.Type()
}

func (e *Engine) lookupFunc(pkg, name string) *ssa.Function {
	p := e.P.pkgs[pkg]
	if p == nil {
		return nil
	}
	return p.Func(name)
}

func (e *Engine) lookupGlobal(pkg, name string) *ssa.Global {
	p := e.P.pkgs[pkg]
	if p == nil {
		return nil
	}
	g, _ := p.Members[name].(*ssa.Global)
	return g
}

func newPtr(v Value) *Value { p := new(Value); *p = v; return p }

// makeError builds an error value of dynamic type *errors.errorString.
func (ex *Exec) makeError(msg Value) Iface {
	t := ex.eng.lookupType("errors", "errorString")
	return Iface{t: types.NewPointer(t), v: newPtr(Struct{msg})}
}

func (ex *Exec) makeRuntimeError(msg string) Value {
	return ex.makeError(mkStr("runtime error: " + msg))
}

// errorString calls Error() on an error interface value.
func (ex *Exec) errorString(fr *Frame, site ssa.Instruction, e Iface) Value {
	if e.t == nil {
		return mkStr("<nil>")
	}
	return ex.callMethod(fr, site, e, "Error")
}

func (ex *Exec) findMethod(t types.Type, name string) *ssa.Function {
	ms := ex.eng.P.prog.MethodSets.MethodSet(t)
	for i := 0; i < ms.Len(); i++ {
		sel := ms.At(i)
		if sel.Obj().Name() == name {
			return ex.eng.P.prog.MethodValue(sel)
		}
	}
	return nil
}

func (ex *Exec) callMethod(fr *Frame, site ssa.Instruction, recv Iface, name string, args ...Value) Value {
	m := ex.findMethod(recv.t, name)
	if m == nil {
		panic(unsupported("no method " + name + " on " + recv.t.String()))
	}
	return ex.call(fr, site, m, append([]Value{recv.v}, args...), false)
}

func strArg(v Value) *Term {
	switch x := v.(type) {
	case *Term:
		return x
	case ByteStr:
		if t, ok := x.s.(*Term); ok {
			return t
		}
	}
	panic(unsupported(fmt.Sprintf("string argument is %T", v)))
}

func bvInt(n int64) *Term { return mkBV(SBV64, uint64(n)) }

func sliceOf(vals ...Value) Slice { return Slice{a: vals, n: len(vals)} }

func (ex *Exec) sliceVals(v Value) []Value {
	s, ok := v.(Slice)
	if !ok {
		panic(unsupported(fmt.Sprintf("slice expected, got %T", v)))
	}
	return s.a[:s.n]
}

// ---------------------------------------------------------------------------------------

func init() {
	// ---- strings ----
	reg("strings.Contains", func(ex *Exec, fr *Frame, site ssa.Instruction, a []Value) Value {
		if r, ok := a[0].(*Rope); ok {
			return ex.ropeContains(r, strArg(a[1]))
		}
		return tStrContains(strArg(a[0]), strArg(a[1]))
	})
	reg("strings.HasPrefix", func(ex *Exec, fr *Frame, site ssa.Instruction, a []Value) Value {
		if r, ok := a[0].(*Rope); ok {
			return ex.ropeHasPrefix(r, strArg(a[1]))
		}
		return tStrPrefixOf(strArg(a[1]), strArg(a[0]))
	})
	reg("strings.HasSuffix", func(ex *Exec, fr *Frame, site ssa.Instruction, a []Value) Value {
		if r, ok := a[0].(*Rope); ok {
			return ex.ropeHasSuffix(r, strArg(a[1]))
		}
		return tStrSuffixOf(strArg(a[1]), strArg(a[0]))
	})
	reg("strings.TrimPrefix", func(ex *Exec, fr *Frame, site ssa.Instruction, a []Value) Value {
		p := strArg(a[1])
		if r, ok := a[0].(*Rope); ok {
			return ex.ropeTrimPrefix(r, p)
		}
		s := strArg(a[0])
		has := tStrPrefixOf(p, s)
		if v, ok := has.BoolVal(); ok {
			if !v {
				return s
			}
		}
		trimmed := tStrSubstr(s, tStrLen(p), tIntSub(tStrLen(s), tStrLen(p)))
		if _, ok := fixedAtoms(s); ok && !has.IsConst() {
			// fixed-length character sequence: decide now, keep the result structured
			if ex.branch(has, site) {
				return trimmed
			}
			return s
		}
		return tIte(has, trimmed, s)
	})
	reg("strings.TrimSuffix", func(ex *Exec, fr *Frame, site ssa.Instruction, a []Value) Value {
		p := strArg(a[1])
		if r, ok := a[0].(*Rope); ok {
			return ex.ropeTrimSuffix(r, p)
		}
		s := strArg(a[0])
		has := tStrSuffixOf(p, s)
		trimmed := tStrSubstr(s, mkInt(0), tIntSub(tStrLen(s), tStrLen(p)))
		if _, ok := fixedAtoms(s); ok && !has.IsConst() {
			if ex.branch(has, site) {
				return trimmed
			}
			return s
		}
		return tIte(has, trimmed, s)
	})
	reg("strings.TrimSpace", func(ex *Exec, fr *Frame, site ssa.Instruction, a []Value) Value {
		if r, ok := a[0].(*Rope); ok {
			return ex.ropeTrimSpace(r)
		}
		s := strArg(a[0])
		if c, ok := s.StrVal(); ok {
			return mkStr(strings.TrimSpace(c))
		}
		return ex.symTrim(s, site, " \t\n\r\v\f", true, true)
	})
	reg("strings.TrimRight", func(ex *Exec, fr *Frame, site ssa.Instruction, a []Value) Value {
		cut, ok := strArg(a[1]).StrVal()
		if !ok {
			panic(unsupported("TrimRight symbolic cutset"))
		}
		if r, ok := a[0].(*Rope); ok {
			return ex.ropeTrimRight(r, cut)
		}
		s := strArg(a[0])
		if c, ok := s.StrVal(); ok {
			return mkStr(strings.TrimRight(c, cut))
		}
		return ex.symTrim(s, site, cut, false, true)
	})
	reg("strings.ToLower", func(ex *Exec, fr *Frame, site ssa.Instruction, a []Value) Value {
		return tStrToLower(strArg(a[0]))
	})
	reg("strings.ReplaceAll", func(ex *Exec, fr *Frame, site ssa.Instruction, a []Value) Value {
		if r, ok := a[0].(*Rope); ok {
			old, ok1 := strArg(a[1]).StrVal()
			ctl := false
			for i := 0; i < len(old); i++ {
				if old[i] < 0x20 {
					ctl = true
				}
			}
			if !ok1 || !ctl {
				panic(unsupported("ReplaceAll inside JSON text"))
			}
			// JSON text has no control bytes: only the plain string parts can contain the needle
			var parts []interface{}
			for _, p := range ropeParts(r) {
				if t, ok := p.(*Term); ok {
					parts = append(parts, tStrReplaceAll(t, strArg(a[1]), strArg(a[2])))
				} else {
					parts = append(parts, p)
				}
			}
			return mkRope(parts)
		}
		if old, ok := strArg(a[1]).StrVal(); ok && len(old) == 1 {
			if as, ok := fixedAtoms(strArg(a[0])); ok && !strArg(a[0]).IsConst() {
				var r *Term = mkStr("")
				for _, at := range as {
					if ex.branch(atomEq(at, old[0]), site) {
						r = tStrConcat(r, strArg(a[2]))
					} else {
						r = tStrConcat(r, atomsToTerm([]strAtom{at}))
					}
				}
				return r
			}
		}
		return tStrReplaceAll(strArg(a[0]), strArg(a[1]), strArg(a[2]))
	})
	reg("strings.Split", func(ex *Exec, fr *Frame, site ssa.Instruction, a []Value) Value {
		return ex.strSplit(site, a[0], strArg(a[1]), -1)
	})
	reg("strings.SplitN", func(ex *Exec, fr *Frame, site ssa.Instruction, a []Value) Value {
		n := ex.concreteInt(a[2], "SplitN n", site)
		return ex.strSplit(site, a[0], strArg(a[1]), n)
	})
	reg("strings.Repeat", func(ex *Exec, fr *Frame, site ssa.Instruction, a []Value) Value {
		s, ok1 := strArg(a[0]).StrVal()
		n, ok2 := a[1].(*Term).BVVal()
		if !ok1 || !ok2 || int64(n) < 0 || int64(n)*int64(len(s)) > 1<<24 {
			panic(unsupported("strings.Repeat with symbolic or huge arguments"))
		}
		return mkStr(strings.Repeat(s, int(n)))
	})
	reg("strings.Join", func(ex *Exec, fr *Frame, site ssa.Instruction, a []Value) Value {
		vals := ex.sliceVals(a[0])
		sep := strArg(a[1])
		var r Value = mkStr("")
		for i, v := range vals {
			if i > 0 {
				r = ropeConcat(r, sep)
			}
			r = ropeConcat(r, v)
		}
		return r
	})
	reg("strings.Count", func(ex *Exec, fr *Frame, site ssa.Instruction, a []Value) Value {
		sub, ok := strArg(a[1]).StrVal()
		if !ok || sub == "" {
			panic(unsupported("strings.Count with symbolic/empty needle"))
		}
		n := 0
		for _, p := range ropeParts(a[0]) {
			switch x := p.(type) {
			case *Term:
				if c, ok := x.StrVal(); ok {
					n += strings.Count(c, sub)
					continue
				}
				if digitOnlyTerm(x) && !strings.ContainsAny(sub, "0123456789-") {
					continue
				}
				panic(unsupported("strings.Count over a symbolic string"))
			case *JNode:
				ctl := false
				for i := 0; i < len(sub); i++ {
					if sub[i] < 0x20 {
						ctl = true
					}
				}
				if !ctl {
					panic(unsupported("strings.Count inside JSON text"))
				}
			}
		}
		return bvInt(int64(n))
	})
	reg("strings.Index", func(ex *Exec, fr *Frame, site ssa.Instruction, a []Value) Value {
		return tStrIndexOf(strArg(a[0]), strArg(a[1]), mkInt(0))
	})
	reg("strings.EqualFold", func(ex *Exec, fr *Frame, site ssa.Instruction, a []Value) Value {
		return tEq(tStrToLower(strArg(a[0])), tStrToLower(strArg(a[1])))
	})
	// strings.Builder: the struct {addr *Builder; buf []byte}; we keep the content in field 1 as ByteStr
	reg("(*strings.Builder).WriteString", func(ex *Exec, fr *Frame, site ssa.Instruction, a []Value) Value {
		p := a[0].(*Value)
		st := (*p).(Struct)
		cur := builderContent(st)
		st[1] = ByteStr{s: ropeConcat(cur, a[1])}
		return Tuple{ex.builtinLen(a[1], site), Iface{}}
	})
	reg("(*strings.Builder).WriteByte", func(ex *Exec, fr *Frame, site ssa.Instruction, a []Value) Value {
		p := a[0].(*Value)
		st := (*p).(Struct)
		cur := builderContent(st)
		st[1] = ByteStr{s: ropeConcat(cur, tStrFromCode(tBVToInt(a[1].(*Term), false)))}
		return Iface{}
	})
	reg("(*strings.Builder).String", func(ex *Exec, fr *Frame, site ssa.Instruction, a []Value) Value {
		return builderContent((*a[0].(*Value)).(Struct))
	})
	reg("(*strings.Builder).Len", func(ex *Exec, fr *Frame, site ssa.Instruction, a []Value) Value {
		return ex.builtinLen(builderContent((*a[0].(*Value)).(Struct)), site)
	})
	reg("(*strings.Builder).Reset", func(ex *Exec, fr *Frame, site ssa.Instruction, a []Value) Value {
		st := (*a[0].(*Value)).(Struct)
		st[1] = Slice{nil: true}
		return nil
	})

	// ---- strconv ----
	reg("strconv.Itoa", func(ex *Exec, fr *Frame, site ssa.Instruction, a []Value) Value {
		return ex.fmtInt(a[0].(*Term), true)
	})
	reg("strconv.Quote", func(ex *Exec, fr *Frame, site ssa.Instruction, a []Value) Value {
		s := strArg(a[0])
		if c, ok := s.StrVal(); ok {
			return mkStr(strconv.Quote(c))
		}
		return tStrConcat(tStrConcat(mkStr(`"`), s), mkStr(`"`))
	})
	reg("strconv.ParseUint", func(ex *Exec, fr *Frame, site ssa.Instruction, a []Value) Value {
		s := strArg(a[0])
		c, ok := s.StrVal()
		if !ok {
			panic(unsupported("ParseUint of symbolic string"))
		}
		base := ex.concreteInt(a[1], "base", site)
		bits := ex.concreteInt(a[2], "bits", site)
		v, err := strconv.ParseUint(c, base, bits)
		if err != nil {
			return Tuple{mkBV(SBV64, v), ex.makeError(mkStr(err.Error()))}
		}
		return Tuple{mkBV(SBV64, v), Iface{}}
	})
	reg("strconv.ParseInt", func(ex *Exec, fr *Frame, site ssa.Instruction, a []Value) Value {
		s := strArg(a[0])
		c, ok := s.StrVal()
		if !ok {
			panic(unsupported("ParseInt of symbolic string"))
		}
		base := ex.concreteInt(a[1], "base", site)
		bits := ex.concreteInt(a[2], "bits", site)
		v, err := strconv.ParseInt(c, base, bits)
		if err != nil {
			return Tuple{mkBV(SBV64, uint64(v)), ex.makeError(mkStr(err.Error()))}
		}
		return Tuple{mkBV(SBV64, uint64(v)), Iface{}}
	})

	// ---- errors / fmt ----
	reg("errors.Is", func(ex *Exec, fr *Frame, site ssa.Instruction, a []Value) Value {
		return mkBool(ex.errorsIs(fr, site, a[0].(Iface), a[1].(Iface), 0))
	})
	reg("errors.As", func(ex *Exec, fr *Frame, site ssa.Instruction, a []Value) Value {
		return mkBool(ex.errorsAs(fr, site, a[0].(Iface), a[1].(Iface)))
	})
	reg("errors.Unwrap", func(ex *Exec, fr *Frame, site ssa.Instruction, a []Value) Value {
		return ex.unwrapErr(fr, site, a[0].(Iface))
	})
	reg("fmt.Sprintf", func(ex *Exec, fr *Frame, site ssa.Instruction, a []Value) Value {
		r, _ := ex.sprintf(fr, site, strArg(a[0]), ex.sliceVals(a[1]))
		return r
	})
	reg("fmt.Sprint", func(ex *Exec, fr *Frame, site ssa.Instruction, a []Value) Value {
		var r Value = mkStr("")
		for _, v := range ex.sliceVals(a[0]) {
			r = ropeConcat(r, ex.fmtValue(fr, site, v, 'v'))
		}
		return r
	})
	reg("fmt.Errorf", func(ex *Exec, fr *Frame, site ssa.Instruction, a []Value) Value {
		msg, wrapped := ex.sprintf(fr, site, strArg(a[0]), ex.sliceVals(a[1]))
		if wrapped != nil {
			t := ex.eng.lookupType("fmt", "wrapError")
			return Iface{t: types.NewPointer(t), v: newPtr(Struct{msg, *wrapped})}
		}
		return ex.makeError(msg)
	})
	reg("fmt.Fprintf", func(ex *Exec, fr *Frame, site ssa.Instruction, a []Value) Value {
		msg, _ := ex.sprintf(fr, site, strArg(a[1]), ex.sliceVals(a[2]))
		return ex.writeTo(fr, site, a[0].(Iface), msg)
	})
	reg("fmt.Fprint", func(ex *Exec, fr *Frame, site ssa.Instruction, a []Value) Value {
		var r Value = mkStr("")
		for _, v := range ex.sliceVals(a[1]) {
			r = ropeConcat(r, ex.fmtValue(fr, site, v, 'v'))
		}
		return ex.writeTo(fr, site, a[0].(Iface), r)
	})
	reg("fmt.Fprintln", func(ex *Exec, fr *Frame, site ssa.Instruction, a []Value) Value {
		var r Value = mkStr("")
		for i, v := range ex.sliceVals(a[1]) {
			if i > 0 {
				r = ropeConcat(r, mkStr(" "))
			}
			r = ropeConcat(r, ex.fmtValue(fr, site, v, 'v'))
		}
		r = ropeConcat(r, mkStr("\n"))
		return ex.writeTo(fr, site, a[0].(Iface), r)
	})
	for _, n := range []string{"fmt.Println", "fmt.Printf", "fmt.Print", "log.Printf", "log.Println", "log.Print"} {
		reg(n, func(ex *Exec, fr *Frame, site ssa.Instruction, a []Value) Value {
			return Tuple{bvInt(0), Iface{}}
		})
	}

	// ---- repo stubs (DESIGN 2.6 tier 3) ----
	nop := func(ex *Exec, fr *Frame, site ssa.Instruction, a []Value) Value {
		t := ex.eng.lookupType(modPath, "verifNopLogger")
		return Iface{t: t, v: Struct{}}
	}
	reg(modPath+".NewZapLogger", nop)
	reg(modPath+"/internal/log.NewZapLogger", nop)

	// ---- io ----
	reg("io.ReadAll", func(ex *Exec, fr *Frame, site ssa.Instruction, a []Value) Value {
		r := a[0].(Iface)
		if r.t == nil {
			fr.rtPanic(site, "invalid memory address or nil pointer dereference (nil reader)")
		}
		if ex.findMethod(r.t, "VerifReadAll") != nil {
			return ex.callMethod(fr, site, r, "VerifReadAll")
		}
		if p, ok := r.v.(*Value); ok && p != nil {
			if c := ex.hctxGet(p, "content"); c != nil {
				// engine-made *bytes.Reader / *bytes.Buffer / *strings.Reader
				ex.hctxSet(p, "content", nil)
				if bs, ok := c.(ByteStr); ok {
					return Tuple{bs, Iface{}}
				}
				return Tuple{c.(Value), Iface{}}
			}
			if ex.hctxGet(p, "contentRead") == true {
				return Tuple{ByteStr{s: mkStr("")}, Iface{}}
			}
		}
		panic(unsupported("io.ReadAll on " + r.t.String() + " (no VerifReadAll)"))
	})
	reg("io.NopCloser", func(ex *Exec, fr *Frame, site ssa.Instruction, a []Value) Value {
		return a[0] // harness readers implement Close themselves
	})
	reg("io.WriteString", func(ex *Exec, fr *Frame, site ssa.Instruction, a []Value) Value {
		return ex.writeTo(fr, site, a[0].(Iface), a[1])
	})
}

func builderContent(st Struct) Value {
	switch b := st[1].(type) {
	case ByteStr:
		return b.s
	case Slice:
		if b.n == 0 {
			return mkStr("")
		}
	}
	panic(unsupported("strings.Builder content"))
}

func (ex *Exec) builtinLen(v Value, site ssa.Instruction) *Term {
	switch x := v.(type) {
	case *Term:
		if s, ok := x.StrVal(); ok {
			return bvInt(int64(len(s)))
		}
		return tStrLen(x)
	case *Rope:
		return ex.ropeLen(x)
	case ByteStr:
		return ex.builtinLen(x.s, site)
	case Slice:
		return bvInt(int64(x.n))
	}
	panic(unsupported(fmt.Sprintf("len of %T", v)))
}

// writeTo calls w.Write([]byte(s)).
func (ex *Exec) writeTo(fr *Frame, site ssa.Instruction, w Iface, s Value) Value {
	if w.t == nil {
		fr.rtPanic(site, "invalid memory address or nil pointer dereference (nil writer)")
	}
	return ex.callMethod(fr, site, w, "Write", ByteStr{s: s})
}

// symTrim trims characters of cutset from a symbolic string by forking (bounded by the unwinding budget).
func (ex *Exec) symTrim(s *Term, site ssa.Instruction, cut string, left, right bool) *Term {
	inCut := func(ch *Term) *Term {
		r := tFalse
		for i := 0; i < len(cut); i++ {
			r = tOr(r, tEq(ch, mkStr(cut[i:i+1])))
		}
		return r
	}
	for n := 0; left && n < 64; n++ {
		nonEmpty := tIntCmp(">", tStrLen(s), mkInt(0))
		c := tAnd(nonEmpty, inCut(tStrAt(s, mkInt(0))))
		if !ex.branch(c, site) {
			break
		}
		s = tStrSubstr(s, mkInt(1), tIntSub(tStrLen(s), mkInt(1)))
	}
	for n := 0; right && n < 64; n++ {
		nonEmpty := tIntCmp(">", tStrLen(s), mkInt(0))
		c := tAnd(nonEmpty, inCut(tStrAt(s, tIntSub(tStrLen(s), mkInt(1)))))
		if !ex.branch(c, site) {
			break
		}
		s = tStrSubstr(s, mkInt(0), tIntSub(tStrLen(s), mkInt(1)))
	}
	return s
}

// strSplit implements strings.Split/SplitN by forking on each separator occurrence.
func (ex *Exec) strSplit(site ssa.Instruction, sv Value, sep *Term, n int) Value {
	if r, ok := sv.(*Rope); ok {
		return ex.ropeSplit(site, r, sep, n)
	}
	s := strArg(sv)
	if c, ok := s.StrVal(); ok {
		if sp, ok := sep.StrVal(); ok {
			var parts []string
			if n < 0 {
				parts = strings.Split(c, sp)
			} else {
				parts = strings.SplitN(c, sp, n)
			}
			vals := make([]Value, len(parts))
			for i, p := range parts {
				vals[i] = mkStr(p)
			}
			return sliceOf(vals...)
		}
	}
	if sp, ok := sep.StrVal(); ok && sp == "" {
		panic(unsupported("Split with empty separator on symbolic string"))
	}
	if sp, ok := sep.StrVal(); ok && len(sp) == 1 {
		if as, ok := fixedAtoms(s); ok {
			// fixed-length character sequence: decide position by position (cheap byte comparisons)
			var out []Value
			var cur []strAtom
			for _, a := range as {
				if (n < 0 || len(out) < n-1) && ex.branch(atomEq(a, sp[0]), site) {
					out = append(out, atomsToTerm(cur))
					cur = nil
					continue
				}
				cur = append(cur, a)
			}
			out = append(out, atomsToTerm(cur))
			return sliceOf(out...)
		}
	}
	var out []Value
	for n < 0 || len(out) < n-1 {
		if !ex.branch(tStrContains(s, sep), site) {
			break
		}
		i := tStrIndexOf(s, sep, mkInt(0))
		out = append(out, tStrSubstr(s, mkInt(0), i))
		off := tIntAdd(i, tStrLen(sep))
		s = tStrSubstr(s, off, tIntSub(tStrLen(s), off))
		if len(out) > 32 {
			panic(&unwindFail{"Split unwinding (32) at " + ex.site(site)})
		}
	}
	out = append(out, s)
	return sliceOf(out...)
}

// fmtInt renders an integer term in decimal.
func (ex *Exec) fmtInt(t *Term, signed bool) Value {
	if u, ok := t.BVVal(); ok {
		if signed {
			return mkStr(strconv.FormatInt(sext(t.Sort.width(), u), 10))
		}
		return mkStr(strconv.FormatUint(u, 10))
	}
	if t.Sort == SInt {
		if i, ok := t.IntVal(); ok {
			return mkStr(strconv.FormatInt(i, 10))
		}
		if d := digitsOf(t); d != nil {
			return d
		}
		if t.HasRng && t.Lo >= 0 {
			return tStrFromInt(t)
		}
		neg := tIntCmp("<", t, mkInt(0))
		return tIte(neg, tStrConcat(mkStr("-"), tStrFromInt(tIntSub(mkInt(0), t))), tStrFromInt(t))
	}
	// symbolic bit-vector into a string: an uninterpreted injective rendering (equal texts iff equal
	// numbers); use Int-backed variables where the digits matter (DESIGN 2.3)
	type itoaRec struct {
		x *Term
		s *Term
	}
	recs, _ := ex.hctx["itoa"].([]itoaRec)
	for _, r := range recs {
		if r.x == t {
			return r.s
		}
	}
	s := ex.fresh("itoa", SStr)
	ex.assume(newTerm("in_re_digits", SBool, s))
	for _, r := range recs {
		if r.x.Sort == t.Sort {
			ex.assume(tEq(newTerm("=", SBool, r.s, s), tEq(r.x, t)))
		}
	}
	ex.hctx["itoa"] = append(recs, itoaRec{t, s})
	return s
}

func (ex *Exec) fmtFloat(t *Term) Value {
	if f, ok := t.F64Val(); ok {
		return mkStr(strconv.FormatFloat(f, 'g', -1, 64))
	}
	if t.IntOf != nil {
		// %v contract: integral float64 with |x| < 2^53 prints as plain digits iff |x| < 10^6 (shortest 'g', exponent threshold 21 does not apply to fmt)
		x := t.IntOf
		small := tAnd(tIntCmp("<", x, mkInt(1000000)), tIntCmp(">", x, mkInt(-1000000)))
		plain := ex.fmtInt(x, true).(*Term)
		exp := ex.fresh("fmtexp", SStr)
		exp.NonDigit = true
		ex.assume(tStrContains(exp, mkStr("e+")))
		return tIte(small, plain, exp)
	}
	// any other float64: the shortest 'g' rendering of a value not known to be integral. When the value is
	// integral the caller usually took another path (IntOf); a non-integral value, NaN and the infinities
	// never render as a plain (optionally signed) digit string
	r := ex.fresh("fmtfloat", SStr)
	if t.Op == "var" {
		// lazy JSON float literals are created non-integral and finite (jsonlazy.go setKind)
		for _, sv := range ex.vars {
			if sv.T == t && sv.Kind == "json-float" {
				r.NonDigit = true
			}
		}
	}
	return r
}

// fmtValue renders one operand for verb.
func (ex *Exec) fmtValue(fr *Frame, site ssa.Instruction, v Value, verb byte) Value {
	i, ok := v.(Iface)
	if !ok {
		panic(unsupported(fmt.Sprintf("fmt operand %T", v)))
	}
	if i.t == nil {
		if verb == 's' {
			return mkStr("%!s(<nil>)")
		}
		if verb == 'd' {
			return mkStr("%!d(<nil>)")
		}
		return mkStr("<nil>")
	}
	if isLazyIface(i) {
		i = ex.resolveIface(fr, site, i)
	}
	if verb == 'T' {
		return mkStr(types.TypeString(i.t, nil))
	}
	// error / Stringer
	if verb == 'v' || verb == 's' || verb == 'w' || verb == 'q' {
		if m := ex.findMethod(i.t, "Error"); m != nil && m.Signature.Params().Len() == 0 {
			if p, ok := i.v.(*Value); ok && p == nil {
				return mkStr("<nil>")
			}
			return ex.call(fr, site, m, []Value{i.v}, false)
		}
		if m := ex.findMethod(i.t, "String"); m != nil && m.Signature.Params().Len() == 0 && m.Signature.Results().Len() == 1 {
			if ex.eng.interpretable(m) || ex.eng.intrinsicFor(m) != nil {
				return ex.call(fr, site, m, []Value{i.v}, false)
			}
		}
	}
	switch x := i.v.(type) {
	case *Term:
		switch {
		case x.Sort == SStr:
			if verb == 'q' {
				if c, ok := x.StrVal(); ok {
					return mkStr(strconv.Quote(c))
				}
				return tStrConcat(tStrConcat(mkStr(`"`), x), mkStr(`"`))
			}
			if verb == 'd' {
				return tStrConcat(tStrConcat(mkStr("%!d(string="), x), mkStr(")"))
			}
			return x
		case x.Sort == SBool:
			return tIte(x, mkStr("true"), mkStr("false"))
		case x.Sort.isBV() || x.Sort == SInt:
			if verb == 's' {
				return tStrConcat(tStrConcat(mkStr("%!s("+types.TypeString(i.t, nil)+"="), ex.fmtInt(x, isSigned(i.t)).(*Term)), mkStr(")"))
			}
			if verb == 'x' {
				if u, ok := x.BVVal(); ok {
					return mkStr(strconv.FormatUint(u, 16))
				}
				return ex.fresh("fmthex", SStr)
			}
			return ex.fmtInt(x, isSigned(i.t))
		case x.Sort == SF64 || x.Sort == SF32:
			return ex.fmtFloat(x)
		}
	case *Rope:
		return x
	case ByteStr:
		if verb == 's' {
			return x.s
		}
	case Slice:
		if x.n == 0 && verb == 's' && isByteSlice(i.t) {
			return mkStr("")
		}
	}
	// anything else prints as an opaque string; maps, slices, structs and pointers never print as a
	// plain digit string ("map[...]", "[...]", "{...}", "0x..." / "&{...}")
	r := ex.fresh("fmtopaque", SStr)
	switch i.v.(type) {
	case *MapObj, Slice, Struct, *Value, Array:
		r.NonDigit = true
	}
	return r
}

// sprintf supports %s %v %d %q %w %T %x %t %f %+v %#v and %%.
func (ex *Exec) sprintf(fr *Frame, site ssa.Instruction, format *Term, args []Value) (Value, *Iface) {
	f, ok := format.StrVal()
	if !ok {
		panic(unsupported("symbolic format string"))
	}
	var out Value = mkStr("")
	var wrapped *Iface
	ai := 0
	for i := 0; i < len(f); i++ {
		c := f[i]
		if c != '%' {
			j := i
			for j < len(f) && f[j] != '%' {
				j++
			}
			out = ropeConcat(out, mkStr(f[i:j]))
			i = j - 1
			continue
		}
		i++
		if i >= len(f) {
			break
		}
		// flags / width / precision
		for i < len(f) && strings.ContainsRune("+-# 0123456789.", rune(f[i])) {
			i++
		}
		if i >= len(f) {
			break
		}
		verb := f[i]
		if verb == '%' {
			out = ropeConcat(out, mkStr("%"))
			continue
		}
		if ai >= len(args) {
			out = ropeConcat(out, mkStr("%!"+string(verb)+"(MISSING)"))
			continue
		}
		arg := args[ai]
		ai++
		if verb == 'w' {
			if e, ok := arg.(Iface); ok && e.t != nil {
				ec := e
				wrapped = &ec
			}
		}
		if verb == 'f' || verb == 'g' || verb == 'e' {
			if e, ok := arg.(Iface); ok {
				if t, ok := e.v.(*Term); ok && t.IsConst() && (t.Sort == SF64) {
					out = ropeConcat(out, mkStr(fmt.Sprintf("%"+string(verb), t.K.(float64))))
					continue
				}
			}
			out = ropeConcat(out, ex.fresh("fmtfloat", SStr))
			continue
		}
		out = ropeConcat(out, ex.fmtValue(fr, site, arg, verb))
	}
	return out, wrapped
}

// ---------------------------------------------------------------------------------------
// errors.Is / As / Unwrap

func (ex *Exec) unwrapErr(fr *Frame, site ssa.Instruction, e Iface) Iface {
	if e.t == nil {
		return Iface{}
	}
	m := ex.findMethod(e.t, "Unwrap")
	if m == nil || m.Signature.Params().Len() != 0 || m.Signature.Results().Len() != 1 {
		return Iface{}
	}
	if _, ok := m.Signature.Results().At(0).Type().Underlying().(*types.Interface); !ok {
		return Iface{} // Unwrap() []error not supported
	}
	r := ex.call(fr, site, m, []Value{e.v}, false)
	return r.(Iface)
}

func (ex *Exec) errorsIs(fr *Frame, site ssa.Instruction, err, target Iface, depth int) bool {
	if depth > 20 {
		return false
	}
	if err.t == nil || target.t == nil {
		return err.t == nil && target.t == nil
	}
	if types.Comparable(target.t) && types.Identical(err.t, target.t) {
		if ex.branch(ex.valEq(err, target), site) {
			return true
		}
	}
	if m := ex.findMethod(err.t, "Is"); m != nil && m.Signature.Params().Len() == 1 {
		r := ex.call(fr, site, m, []Value{err.v, target}, false)
		if ex.branch(r.(*Term), site) {
			return true
		}
	}
	return ex.errorsIs(fr, site, ex.unwrapErr(fr, site, err), target, depth+1)
}

func (ex *Exec) errorsAs(fr *Frame, site ssa.Instruction, err, target Iface) bool {
	if target.t == nil {
		panic(&goPanic{val: ex.makeError(mkStr("errors: target cannot be nil")), descr: "errors: target cannot be nil", site: ex.site(site)})
	}
	pt, ok := target.t.Underlying().(*types.Pointer)
	if !ok {
		panic(&goPanic{val: ex.makeError(mkStr("errors: target must be a non-nil pointer")), descr: "errors: target must be a non-nil pointer", site: ex.site(site)})
	}
	tt := pt.Elem()
	slot := target.v.(*Value)
	for d := 0; d < 20 && err.t != nil; d++ {
		if it, isI := tt.Underlying().(*types.Interface); isI {
			if types.Implements(err.t, it) {
				*slot = err
				return true
			}
		} else if types.Identical(err.t, tt) {
			*slot = copyVal(err.v)
			return true
		}
		if m := ex.findMethod(err.t, "As"); m != nil && m.Signature.Params().Len() == 1 {
			r := ex.call(fr, site, m, []Value{err.v, target}, false)
			if ex.branch(r.(*Term), site) {
				return true
			}
		}
		err = ex.unwrapErr(fr, site, err)
	}
	return false
}

// digitsOf renders a ranged Int variable whose bounds have the same sign and number of
// decimal digits as a sequence of digit characters (keeps error texts in string normal form).
func digitsOf(t *Term) *Term {
	if !t.HasRng {
		return nil
	}
	lo, hi := t.Lo, t.Hi
	var r *Term = mkStr("")
	x := t
	if hi < 0 {
		lo, hi = -hi, -lo
		x = tIntSub(mkInt(0), t)
		r = mkStr("-")
	} else if lo < 0 {
		return nil
	}
	nd := len(strconv.FormatInt(lo, 10))
	if nd != len(strconv.FormatInt(hi, 10)) || nd > 6 {
		return nil
	}
	pow := int64(1)
	for i := 1; i < nd; i++ {
		pow *= 10
	}
	for i := 0; i < nd; i++ {
		var d *Term
		if pow == 1 {
			d = newTerm("mod", SInt, x, mkInt(10))
		} else {
			d = newTerm("mod", SInt, newTerm("div", SInt, x, mkInt(pow)), mkInt(10))
		}
		ch := mkByteChar(tIntAdd(d, mkInt(48)))
		ch.K = "byte"
		r = tStrConcat(r, ch)
		pow /= 10
	}
	return r
}

// ---- reflect (only what isZeroStruct needs): a reflect.Value carries the boxed operand in its ptr slot ----

func (ex *Exec) isZeroVal(v Value) *Term {
	switch x := v.(type) {
	case *Term:
		switch {
		case x.Sort == SBool:
			return tNot(x)
		case x.Sort == SStr:
			return tEq(x, mkStr(""))
		case x.Sort == SInt:
			return tEq(x, mkInt(0))
		case x.Sort == SF64:
			return tSame(x, mkF64(0))
		case x.Sort == SF32:
			return tSame(x, mkF32(0))
		default:
			return tEq(x, mkBV(x.Sort, 0))
		}
	case *Value:
		return mkBool(x == nil)
	case Iface:
		return mkBool(x.t == nil)
	case Slice:
		return mkBool(x.nil)
	case ByteStr:
		return tFalse
	case *MapObj:
		return mkBool(x == nil)
	case *ChanObj:
		return mkBool(x == nil)
	case *Closure:
		return mkBool(x == nil)
	case *ssa.Function:
		return mkBool(x == nil)
	case nil:
		return tTrue
	case Struct:
		r := tTrue
		for _, f := range x {
			r = tAnd(r, ex.isZeroVal(f))
		}
		return r
	case Array:
		r := tTrue
		for _, f := range x {
			r = tAnd(r, ex.isZeroVal(f))
		}
		return r
	case *Rope:
		return tFalse
	}
	panic(unsupported(fmt.Sprintf("isZero of %T", v)))
}

func init() {
	reg("reflect.ValueOf", func(ex *Exec, fr *Frame, site ssa.Instruction, a []Value) Value {
		t := ex.eng.lookupType("reflect", "Value")
		st := zero(t).(Struct)
		st[1] = a[0].(Iface)
		return st
	})
	reg("(reflect.Value).IsZero", func(ex *Exec, fr *Frame, site ssa.Instruction, a []Value) Value {
		i, ok := a[0].(Struct)[1].(Iface)
		if ok {
			i = ex.resolveIface(fr, site, i)
		}
		if !ok || i.t == nil {
			panic(&goPanic{val: ex.makeError(mkStr("reflect: call of reflect.Value.IsZero on zero Value")), descr: "reflect: call of reflect.Value.IsZero on zero Value", site: ex.site(site)})
		}
		return ex.isZeroVal(i.v)
	})
}

func init() {
	reg("math.Trunc", func(ex *Exec, fr *Frame, site ssa.Instruction, a []Value) Value {
		t := a[0].(*Term)
		if f, ok := t.F64Val(); ok {
			return mkF64(float64(int64(f)) + 0*f) // exact for |f| < 2^63; larger values are already integral
		}
		if t.IntOf != nil {
			return t
		}
		return newTerm("fp.roundToIntegral_RTZ", SF64, t)
	})
	reg("math.Abs", func(ex *Exec, fr *Frame, site ssa.Instruction, a []Value) Value {
		t := a[0].(*Term)
		if f, ok := t.F64Val(); ok {
			if f < 0 || (f == 0 && 1/f < 0) {
				return mkF64(-f)
			}
			return mkF64(f)
		}
		if t.IntOf != nil {
			x := t.IntOf
			abs := tIte(tIntCmp("<", x, mkInt(0)), tIntSub(mkInt(0), x), x)
			if x.HasRng && x.Lo >= 0 {
				abs = x
			}
			r := tIntToF64(abs)
			return r
		}
		return newTerm("fp.abs", SF64, t)
	})
	reg("math.IsNaN", func(ex *Exec, fr *Frame, site ssa.Instruction, a []Value) Value {
		return tFIsNaN(a[0].(*Term))
	})
	reg("math.IsInf", func(ex *Exec, fr *Frame, site ssa.Instruction, a []Value) Value {
		t := a[0].(*Term)
		if t.IntOf != nil {
			return tFalse
		}
		return newTermFold("fp.isInfinite", t)
	})
	reg("strconv.FormatInt", func(ex *Exec, fr *Frame, site ssa.Instruction, a []Value) Value {
		if b, ok := a[1].(*Term).BVVal(); !ok || b != 10 {
			panic(unsupported("FormatInt base"))
		}
		return ex.fmtInt(a[0].(*Term), true)
	})
}

func init() {
	reg("strconv.FormatFloat", func(ex *Exec, fr *Frame, site ssa.Instruction, a []Value) Value {
		t := a[0].(*Term)
		fm, ok1 := a[1].(*Term).BVVal()
		prec := ex.concreteInt(a[2], "precision", site)
		bits := ex.concreteInt(a[3], "bitSize", site)
		if !ok1 {
			panic(unsupported("FormatFloat symbolic format"))
		}
		if f, ok := t.F64Val(); ok {
			return mkStr(strconv.FormatFloat(f, byte(fm), prec, bits))
		}
		if t.IntOf != nil && byte(fm) == 'f' && prec == -1 {
			x := t.IntOf
			if bits == 64 {
				return ex.fmtInt(x, true) // exact: |x| <= 2^53
			}
			// float32: the value is first rounded to 24 significant bits. Model: a multiple y of
			// 2^(bitlen(|x|)-24) within half a step of x (y = x when x fits in 24 bits).
			y := ex.fresh("f32round", SInt)
			abs := tIte(tIntCmp("<", x, mkInt(0)), tIntSub(mkInt(0), x), x)
			cons := tImplies(tIntCmp("<=", abs, mkInt(1<<24)), tEq(y, x))
			for k := 1; k <= 30; k++ {
				lo, hi := int64(1)<<(23+k), int64(1)<<(24+k)
				in := tAnd(tIntCmp(">", abs, mkInt(lo)), tIntCmp("<=", abs, mkInt(hi)))
				step := int64(1) << k
				mult := tEq(newTerm("mod", SInt, y, mkInt(step)), mkInt(0))
				d := tIntSub(y, x)
				near := tAnd(tIntCmp("<=", d, mkInt(step/2)), tIntCmp(">=", d, mkInt(-step/2)))
				// ties go to the even multiple (round-half-even)
				tie := tOr(tEq(d, mkInt(step/2)), tEq(d, mkInt(-step/2)))
				even := tEq(newTerm("mod", SInt, newTerm("div", SInt, y, mkInt(step)), mkInt(2)), mkInt(0))
				cons = tAnd(cons, tImplies(in, tAndN(mult, near, tImplies(tie, even))))
			}
			ex.assume(cons)
			if x.HasRng && x.Lo >= 0 {
				y.HasRng, y.Lo, y.Hi = true, 0, x.Hi+x.Hi/2+1
			}
			return ex.fmtInt(y, true)
		}
		s := ex.fresh("fmtfloat", SStr)
		return s
	})
}
