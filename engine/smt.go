package main

// SMT term layer: sorted terms with eager constant folding, SMT-LIB2 printing.

import (
	"fmt"
	"math"
	"math/big"
	"strconv"
	"strings"
)

type Sort uint8

const (
	SBool Sort = iota
	SInt       // mathematical Int (Int-backed Go integers, see DESIGN 2.3)
	SBV8
	SBV16
	SBV32
	SBV64
	SF64
	SF32
	SStr
)

func (s Sort) String() string {
	switch s {
	case SBool:
		return "Bool"
	case SInt:
		return "Int"
	case SBV8:
		return "(_ BitVec 8)"
	case SBV16:
		return "(_ BitVec 16)"
	case SBV32:
		return "(_ BitVec 32)"
	case SBV64:
		return "(_ BitVec 64)"
	case SF64:
		return "(_ FloatingPoint 11 53)"
	case SF32:
		return "(_ FloatingPoint 8 24)"
	case SStr:
		return "String"
	}
	return "?"
}

func (s Sort) isBV() bool { return s >= SBV8 && s <= SBV64 }
func (s Sort) width() uint {
	switch s {
	case SBV8:
		return 8
	case SBV16:
		return 16
	case SBV32:
		return 32
	case SBV64:
		return 64
	}
	panic("width of non-bv sort")
}
func bvSort(w uint) Sort {
	switch w {
	case 8:
		return SBV8
	case 16:
		return SBV16
	case 32:
		return SBV32
	case 64:
		return SBV64
	}
	panic(fmt.Sprintf("bvSort %d", w))
}

// Term is an SMT term. Const terms have Op=="const" and K set:
// bool | uint64 (BV, masked to width) | int64 (Int) | float64 | string.
// Var terms have Op=="var", K=name(string).
type Term struct {
	Op   string
	Sort Sort
	Args []*Term
	K    interface{}
	// IntOf, when non-nil on an SF64 term, records that this float is exactly
	// float64(IntOf) for an Int-sorted term within +-2^53 (DESIGN 2.6, %v contract).
	IntOf *Term
	// Range of an Int-sorted variable (vIntRange), used for digit decomposition.
	HasRng bool
	Lo, Hi int64
	NonDigit bool // string known to contain a non-digit character (exponent renderings)
	Lower   bool // string variable over an alphabet without A-Z (to_lower is the identity)
	strFlag int8 // 0 unknown, 1 mentions strings, 2 does not
}

func newTerm(op string, s Sort, args ...*Term) *Term {
	return &Term{Op: op, Sort: s, Args: args}
}

func (t *Term) IsConst() bool { return t.Op == "const" }

func mkBool(b bool) *Term { t := newTerm("const", SBool); t.K = b; return t }

var tTrue, tFalse *Term

func init() { tTrue = mkBool(true); tFalse = mkBool(false) }

func mask(w uint, v uint64) uint64 {
	if w >= 64 {
		return v
	}
	return v & ((uint64(1) << w) - 1)
}
func sext(w uint, v uint64) int64 {
	if w >= 64 {
		return int64(v)
	}
	sh := 64 - w
	return int64(v<<sh) >> sh
}

func mkBV(s Sort, v uint64) *Term {
	t := newTerm("const", s)
	t.K = mask(s.width(), v)
	return t
}
func mkInt(v int64) *Term        { t := newTerm("const", SInt); t.K = v; return t }
func mkF64(v float64) *Term      { t := newTerm("const", SF64); t.K = v; return t }
func mkF32(v float32) *Term      { t := newTerm("const", SF32); t.K = float64(v); return t }
func mkStr(v string) *Term       { t := newTerm("const", SStr); t.K = v; return t }
func mkVar(name string, s Sort) *Term { t := newTerm("var", s); t.K = name; return t }

func (t *Term) BoolVal() (bool, bool) {
	if t.IsConst() && t.Sort == SBool {
		return t.K.(bool), true
	}
	return false, false
}
func (t *Term) BVVal() (uint64, bool) {
	if t.IsConst() && t.Sort.isBV() {
		return t.K.(uint64), true
	}
	return 0, false
}
func (t *Term) IntVal() (int64, bool) {
	if t.IsConst() && t.Sort == SInt {
		return t.K.(int64), true
	}
	return 0, false
}
func (t *Term) StrVal() (string, bool) {
	if t.IsConst() && t.Sort == SStr {
		return t.K.(string), true
	}
	return "", false
}
func (t *Term) F64Val() (float64, bool) {
	if t.IsConst() && (t.Sort == SF64 || t.Sort == SF32) {
		return t.K.(float64), true
	}
	return 0, false
}

// ---------- Bool ----------

func tNot(a *Term) *Term {
	if v, ok := a.BoolVal(); ok {
		return mkBool(!v)
	}
	if a.Op == "not" {
		return a.Args[0]
	}
	return newTerm("not", SBool, a)
}
func tAnd(a, b *Term) *Term {
	if v, ok := a.BoolVal(); ok {
		if v {
			return b
		}
		return tFalse
	}
	if v, ok := b.BoolVal(); ok {
		if v {
			return a
		}
		return tFalse
	}
	return newTerm("and", SBool, a, b)
}
func tOr(a, b *Term) *Term {
	if v, ok := a.BoolVal(); ok {
		if v {
			return tTrue
		}
		return b
	}
	if v, ok := b.BoolVal(); ok {
		if v {
			return tTrue
		}
		return a
	}
	return newTerm("or", SBool, a, b)
}
func tAndN(xs ...*Term) *Term {
	r := tTrue
	for _, x := range xs {
		r = tAnd(r, x)
	}
	return r
}
func tOrN(xs ...*Term) *Term {
	r := tFalse
	for _, x := range xs {
		r = tOr(r, x)
	}
	return r
}
func tImplies(a, b *Term) *Term { return tOr(tNot(a), b) }

func tIte(c, a, b *Term) *Term {
	if v, ok := c.BoolVal(); ok {
		if v {
			return a
		}
		return b
	}
	if a == b {
		return a
	}
	if a.Sort != b.Sort {
		panic(fmt.Sprintf("ite sort mismatch %v %v", a.Sort, b.Sort))
	}
	if a.Sort == SBool {
		if av, ok := a.BoolVal(); ok {
			if bv, ok2 := b.BoolVal(); ok2 {
				if av == bv {
					return a
				}
				if av {
					return c
				}
				return tNot(c)
			}
		}
	}
	return newTerm("ite", a.Sort, c, a, b)
}

func tEq(a, b *Term) *Term {
	if a.Sort != b.Sort {
		panic(fmt.Sprintf("eq sort mismatch %v %v (%s / %s)", a.Sort, b.Sort, a.SMT(), b.SMT()))
	}
	if a == b && a.Sort != SF64 && a.Sort != SF32 {
		return tTrue
	}
	if a.IsConst() && b.IsConst() {
		switch a.Sort {
		case SF64, SF32:
			return mkBool(a.K.(float64) == b.K.(float64))
		default:
			return mkBool(a.K == b.K)
		}
	}
	if a.Sort == SF64 || a.Sort == SF32 {
		if a.IntOf != nil && b.IntOf != nil {
			return tEq(a.IntOf, b.IntOf) // exact and injective within +-2^53
		}
		if a.IntOf != nil {
			if f, ok := b.F64Val(); ok && f == float64(int64(f)) && f < 9.1e15 && f > -9.1e15 {
				return tEq(a.IntOf, mkInt(int64(f)))
			}
		}
		if b.IntOf != nil {
			if f, ok := a.F64Val(); ok && f == float64(int64(f)) && f < 9.1e15 && f > -9.1e15 {
				return tEq(b.IntOf, mkInt(int64(f)))
			}
		}
		return newTerm("fp.eq", SBool, a, b)
	}
	if a.Sort == SStr {
		if a.Op == "ite" {
			return tIte(a.Args[0], tEq(a.Args[1], b), tEq(a.Args[2], b))
		}
		if b.Op == "ite" {
			return tIte(b.Args[0], tEq(a, b.Args[1]), tEq(a, b.Args[2]))
		}
		if a.Op == "str.from_int" && b.Op == "str.from_int" {
			x, y := a.Args[0], b.Args[0]
			if x.HasRng && x.Lo >= 0 && y.HasRng && y.Lo >= 0 {
				return tEq(x, y) // decimal rendering is injective on non-negative integers
			}
		}
		if (a.NonDigit && digitsTerm(b)) || (b.NonDigit && digitsTerm(a)) {
			return tFalse
		}
		if hasStructure(a) && hasStructure(b) && !a.IsConst() && !b.IsConst() {
			pa, pb := strPartsOf(a), strPartsOf(b)
			if len(pa) == 1 && len(pb) == 1 && pa[0].v == nil && pb[0].v == nil {
				// two fixed-length character sequences: compare position by position
				if len(pa[0].atoms) != len(pb[0].atoms) {
					return tFalse
				}
				r := tTrue
				for i := range pa[0].atoms {
					x, y := pa[0].atoms[i], pb[0].atoms[i]
					switch {
					case x.code == nil && y.code == nil:
						r = tAnd(r, mkBool(x.c == y.c))
					case x.code == nil:
						r = tAnd(r, atomEq(y, x.c))
					case y.code == nil:
						r = tAnd(r, atomEq(x, y.c))
					default:
						if x.code.Op == "bv2nat" && y.code.Op == "bv2nat" && x.code.Args[0].Sort == y.code.Args[0].Sort {
							r = tAnd(r, tEq(x.code.Args[0], y.code.Args[0]))
						} else {
							r = tAnd(r, tEq(x.code, y.code))
						}
					}
				}
				return r
			}
		}
		if c, ok := b.StrVal(); ok && hasStructure(a) {
			return eqParts(strPartsOf(a), c)
		}
		if c, ok := a.StrVal(); ok && hasStructure(b) {
			return eqParts(strPartsOf(b), c)
		}
	}
	if a.Sort == SBool {
		if v, ok := a.BoolVal(); ok {
			if v {
				return b
			}
			return tNot(b)
		}
		if v, ok := b.BoolVal(); ok {
			if v {
				return a
			}
			return tNot(a)
		}
	}
	return newTerm("=", SBool, a, b)
}

// bitwise-identical equality (floats by bits)
func tSame(a, b *Term) *Term {
	if a.Sort == SF64 || a.Sort == SF32 {
		if a.IsConst() && b.IsConst() {
			return mkBool(math.Float64bits(a.K.(float64)) == math.Float64bits(b.K.(float64)))
		}
		return newTerm("=", SBool, a, b)
	}
	return tEq(a, b)
}

// ---------- BV ----------

func bvBin(op string, a, b *Term, f func(w uint, x, y uint64) (uint64, bool)) *Term {
	if a.Sort != b.Sort {
		panic(fmt.Sprintf("%s sort mismatch %v %v", op, a.Sort, b.Sort))
	}
	if x, ok := a.BVVal(); ok {
		if y, ok := b.BVVal(); ok {
			if r, ok := f(a.Sort.width(), x, y); ok {
				return mkBV(a.Sort, r)
			}
		}
	}
	return newTerm(op, a.Sort, a, b)
}
func bvCmp(op string, a, b *Term, f func(w uint, x, y uint64) bool) *Term {
	if a.Sort != b.Sort {
		panic(fmt.Sprintf("%s sort mismatch %v %v", op, a.Sort, b.Sort))
	}
	if x, ok := a.BVVal(); ok {
		if y, ok := b.BVVal(); ok {
			return mkBool(f(a.Sort.width(), x, y))
		}
	}
	return newTerm(op, SBool, a, b)
}

func tBVAdd(a, b *Term) *Term {
	if y, ok := b.BVVal(); ok && y == 0 {
		return a
	}
	if x, ok := a.BVVal(); ok && x == 0 {
		return b
	}
	return bvBin("bvadd", a, b, func(w uint, x, y uint64) (uint64, bool) { return x + y, true })
}
func tBVSub(a, b *Term) *Term {
	if y, ok := b.BVVal(); ok && y == 0 {
		return a
	}
	return bvBin("bvsub", a, b, func(w uint, x, y uint64) (uint64, bool) { return x - y, true })
}
func tBVMul(a, b *Term) *Term {
	return bvBin("bvmul", a, b, func(w uint, x, y uint64) (uint64, bool) { return x * y, true })
}
func tBVUDiv(a, b *Term) *Term {
	return bvBin("bvudiv", a, b, func(w uint, x, y uint64) (uint64, bool) {
		if y == 0 {
			return 0, false
		}
		return x / y, true
	})
}
func tBVURem(a, b *Term) *Term {
	return bvBin("bvurem", a, b, func(w uint, x, y uint64) (uint64, bool) {
		if y == 0 {
			return 0, false
		}
		return x % y, true
	})
}
func tBVSDiv(a, b *Term) *Term {
	return bvBin("bvsdiv", a, b, func(w uint, x, y uint64) (uint64, bool) {
		if y == 0 {
			return 0, false
		}
		sx, sy := sext(w, x), sext(w, y)
		if sy == -1 {
			return uint64(-sx), true
		}
		return uint64(sx / sy), true
	})
}
func tBVSRem(a, b *Term) *Term {
	return bvBin("bvsrem", a, b, func(w uint, x, y uint64) (uint64, bool) {
		if y == 0 {
			return 0, false
		}
		sx, sy := sext(w, x), sext(w, y)
		if sy == -1 {
			return 0, true
		}
		return uint64(sx % sy), true
	})
}
func tBVAnd(a, b *Term) *Term {
	return bvBin("bvand", a, b, func(w uint, x, y uint64) (uint64, bool) { return x & y, true })
}
func tBVOr(a, b *Term) *Term {
	return bvBin("bvor", a, b, func(w uint, x, y uint64) (uint64, bool) { return x | y, true })
}
func tBVXor(a, b *Term) *Term {
	return bvBin("bvxor", a, b, func(w uint, x, y uint64) (uint64, bool) { return x ^ y, true })
}
func tBVShl(a, b *Term) *Term {
	return bvBin("bvshl", a, b, func(w uint, x, y uint64) (uint64, bool) {
		if y >= uint64(w) {
			return 0, true
		}
		return x << y, true
	})
}
func tBVLshr(a, b *Term) *Term {
	return bvBin("bvlshr", a, b, func(w uint, x, y uint64) (uint64, bool) {
		if y >= uint64(w) {
			return 0, true
		}
		return x >> y, true
	})
}
func tBVAshr(a, b *Term) *Term {
	return bvBin("bvashr", a, b, func(w uint, x, y uint64) (uint64, bool) {
		sx := sext(w, x)
		if y >= uint64(w) {
			y = uint64(w) - 1
		}
		return uint64(sx >> y), true
	})
}
func tBVNeg(a *Term) *Term {
	if x, ok := a.BVVal(); ok {
		return mkBV(a.Sort, -x)
	}
	return newTerm("bvneg", a.Sort, a)
}
func tBVNot(a *Term) *Term {
	if x, ok := a.BVVal(); ok {
		return mkBV(a.Sort, ^x)
	}
	return newTerm("bvnot", a.Sort, a)
}
func tBVUlt(a, b *Term) *Term {
	return bvCmp("bvult", a, b, func(w uint, x, y uint64) bool { return x < y })
}
func tBVUle(a, b *Term) *Term {
	return bvCmp("bvule", a, b, func(w uint, x, y uint64) bool { return x <= y })
}
func tBVSlt(a, b *Term) *Term {
	return bvCmp("bvslt", a, b, func(w uint, x, y uint64) bool { return sext(w, x) < sext(w, y) })
}
func tBVSle(a, b *Term) *Term {
	return bvCmp("bvsle", a, b, func(w uint, x, y uint64) bool { return sext(w, x) <= sext(w, y) })
}

// tBVResize converts a BV term to another width with sign or zero extension / truncation.
func tBVResize(a *Term, to Sort, signed bool) *Term {
	fw, tw := a.Sort.width(), to.width()
	if fw == tw {
		return a
	}
	if x, ok := a.BVVal(); ok {
		if tw < fw {
			return mkBV(to, x)
		}
		if signed {
			return mkBV(to, uint64(sext(fw, x)))
		}
		return mkBV(to, x)
	}
	if tw < fw {
		t := newTerm("extract", to, a)
		t.K = [2]uint{tw - 1, 0}
		return t
	}
	op := "zero_extend"
	if signed {
		op = "sign_extend"
	}
	t := newTerm(op, to, a)
	t.K = tw - fw
	return t
}

// ---------- Int ----------

func tIntBin(op string, a, b *Term, f func(x, y int64) (int64, bool)) *Term {
	if x, ok := a.IntVal(); ok {
		if y, ok := b.IntVal(); ok {
			if r, ok := f(x, y); ok {
				return mkInt(r)
			}
		}
	}
	return newTerm(op, SInt, a, b)
}
// addConst: x + c with nested constant offsets merged and ranges propagated.
func addConst(x *Term, c int64) *Term {
	if c == 0 {
		return x
	}
	if v, ok := x.IntVal(); ok {
		r := v + c
		if (r > v) == (c > 0) {
			return mkInt(r)
		}
	}
	base, off := x, int64(0)
	if x.Op == "+" && len(x.Args) == 2 {
		if k, ok := x.Args[1].IntVal(); ok {
			base, off = x.Args[0], k
		}
	}
	tot := off + c
	if (tot > off) != (c > 0) {
		return newTerm("+", SInt, x, mkInt(c)) // overflow of the offset: keep as is
	}
	var r *Term
	if tot == 0 {
		return base
	}
	r = newTerm("+", SInt, base, mkInt(tot))
	if base.HasRng {
		lo, hi := base.Lo+tot, base.Hi+tot
		if (lo > base.Lo) == (tot > 0) && (hi > base.Hi) == (tot > 0) {
			r.HasRng, r.Lo, r.Hi = true, lo, hi
		}
	}
	return r
}

func tIntAdd(a, b *Term) *Term {
	if y, ok := b.IntVal(); ok {
		return addConst(a, y)
	}
	if x, ok := a.IntVal(); ok {
		return addConst(b, x)
	}
	return newTerm("+", SInt, a, b)
}
func tIntSub(a, b *Term) *Term {
	if y, ok := b.IntVal(); ok && y != math.MinInt64 {
		return addConst(a, -y)
	}
	if a == b {
		return mkInt(0)
	}
	r := newTerm("-", SInt, a, b)
	if x, ok := a.IntVal(); ok && x == 0 && b.HasRng && b.Lo != math.MinInt64 {
		r.HasRng, r.Lo, r.Hi = true, -b.Hi, -b.Lo
	}
	return r
}
func tIntMul(a, b *Term) *Term {
	return tIntBin("*", a, b, func(x, y int64) (int64, bool) {
		if x == 0 || y == 0 {
			return 0, true
		}
		r := x * y
		if r/y == x && !(x == -1 && y == math.MinInt64) && !(y == -1 && x == math.MinInt64) {
			return r, true
		}
		return 0, false
	})
}
func tIntCmp(op string, a, b *Term) *Term {
	if x, ok := a.IntVal(); ok {
		if y, ok := b.IntVal(); ok {
			switch op {
			case "<":
				return mkBool(x < y)
			case "<=":
				return mkBool(x <= y)
			case ">":
				return mkBool(x > y)
			case ">=":
				return mkBool(x >= y)
			}
		}
	}
	return newTerm(op, SBool, a, b)
}

// ---------- FP ----------

func fpBin(op string, a, b *Term, f func(x, y float64) float64) *Term {
	if x, ok := a.F64Val(); ok {
		if y, ok := b.F64Val(); ok {
			r := f(x, y)
			if a.Sort == SF32 {
				return mkF32(float32(r))
			}
			return mkF64(r)
		}
	}
	return newTerm(op, a.Sort, a, b)
}
func tFAdd(a, b *Term) *Term { return fpBin("fp.add", a, b, func(x, y float64) float64 { return x + y }) }
func tFSub(a, b *Term) *Term { return fpBin("fp.sub", a, b, func(x, y float64) float64 { return x - y }) }
func tFMul(a, b *Term) *Term { return fpBin("fp.mul", a, b, func(x, y float64) float64 { return x * y }) }
func tFDiv(a, b *Term) *Term { return fpBin("fp.div", a, b, func(x, y float64) float64 { return x / y }) }
func tFNeg(a *Term) *Term {
	if x, ok := a.F64Val(); ok {
		if a.Sort == SF32 {
			return mkF32(float32(-x))
		}
		return mkF64(-x)
	}
	return newTerm("fp.neg", a.Sort, a)
}
func tFCmp(op string, a, b *Term) *Term {
	if x, ok := a.F64Val(); ok {
		if y, ok := b.F64Val(); ok {
			switch op {
			case "fp.lt":
				return mkBool(x < y)
			case "fp.leq":
				return mkBool(x <= y)
			case "fp.gt":
				return mkBool(x > y)
			case "fp.geq":
				return mkBool(x >= y)
			}
		}
	}
	return newTerm(op, SBool, a, b)
}
func tFIsNaN(a *Term) *Term {
	if x, ok := a.F64Val(); ok {
		return mkBool(x != x)
	}
	if a.IntOf != nil {
		return tFalse
	}
	return newTerm("fp.isNaN", SBool, a)
}

// int (BV, signed/unsigned) -> float64
func tBVToF64(a *Term, signed bool) *Term {
	if x, ok := a.BVVal(); ok {
		if signed {
			return mkF64(float64(sext(a.Sort.width(), x)))
		}
		return mkF64(float64(x))
	}
	op := "to_fp_unsigned"
	if signed {
		op = "to_fp_signed"
	}
	return newTerm(op, SF64, a)
}

// Int-sorted -> float64 (exact when |x| <= 2^53)
func tIntToF64(a *Term) *Term {
	if x, ok := a.IntVal(); ok {
		return mkF64(float64(x))
	}
	t := newTerm("to_fp_int", SF64, a)
	t.IntOf = a
	return t
}

// float64 -> signed BV (Go semantics modelled by the caller; this is the raw SMT op: RTZ)
func tF64ToSBV(a *Term, to Sort) *Term {
	t := newTerm("fp.to_sbv", to, a)
	return t
}
func tF64ToUBV(a *Term, to Sort) *Term {
	t := newTerm("fp.to_ubv", to, a)
	return t
}

// ---------- Strings ----------

func tStrConcat(a, b *Term) *Term {
	if x, ok := a.StrVal(); ok {
		if x == "" {
			return b
		}
		if y, ok := b.StrVal(); ok {
			return mkStr(x + y)
		}
	}
	if y, ok := b.StrVal(); ok && y == "" {
		return a
	}
	return newTerm("str.++", SStr, a, b)
}
func tStrLen(a *Term) *Term { // Int-sorted
	if x, ok := a.StrVal(); ok {
		return mkInt(int64(len(x)))
	}
	if hasStructure(a) {
		// sum the fixed-length pieces
		var total *Term = mkInt(0)
		for _, p := range strPartsOf(a) {
			if p.v == nil {
				total = tIntAdd(total, mkInt(int64(len(p.atoms))))
			} else {
				total = tIntAdd(total, newTerm("str.len", SInt, p.v))
			}
		}
		return total
	}
	return newTerm("str.len", SInt, a)
}
func tStrContains(a, b *Term) *Term {
	if x, ok := a.StrVal(); ok {
		if y, ok := b.StrVal(); ok {
			return mkBool(strings.Contains(x, y))
		}
	}
	if y, ok := b.StrVal(); ok && y == "" {
		return tTrue
	}
	if y, ok := b.StrVal(); ok && hasStructure(a) {
		return containsParts(strPartsOf(a), y)
	}
	return newTerm("str.contains", SBool, a, b)
}
func tStrPrefixOf(p, s *Term) *Term { // p is prefix of s
	if x, ok := p.StrVal(); ok {
		if y, ok := s.StrVal(); ok {
			return mkBool(strings.HasPrefix(y, x))
		}
		if x == "" {
			return tTrue
		}
		if hasStructure(s) {
			return prefixOfParts(x, strPartsOf(s), 0)
		}
	}
	return newTerm("str.prefixof", SBool, p, s)
}
func tStrSuffixOf(p, s *Term) *Term {
	if x, ok := p.StrVal(); ok {
		if y, ok := s.StrVal(); ok {
			return mkBool(strings.HasSuffix(y, x))
		}
		if x == "" {
			return tTrue
		}
		if hasStructure(s) {
			return suffixOfParts(x, strPartsOf(s))
		}
	}
	return newTerm("str.suffixof", SBool, p, s)
}
func tStrIndexOf(s, sub, from *Term) *Term { // Int
	if x, ok := s.StrVal(); ok {
		if y, ok := sub.StrVal(); ok {
			if f, ok := from.IntVal(); ok && f >= 0 && f <= int64(len(x)) {
				i := strings.Index(x[f:], y)
				if i < 0 {
					return mkInt(-1)
				}
				return mkInt(int64(i) + f)
			}
		}
	}
	return newTerm("str.indexof", SInt, s, sub, from)
}
func tStrSubstr(s, off, n *Term) *Term {
	if x, ok := s.StrVal(); ok {
		if o, ok := off.IntVal(); ok {
			if l, ok := n.IntVal(); ok {
				if o < 0 || o >= int64(len(x)) || l <= 0 {
					return mkStr("")
				}
				e := o + l
				if e > int64(len(x)) {
					e = int64(len(x))
				}
				return mkStr(x[o:e])
			}
		}
	}
	if as, ok := fixedAtoms(s); ok {
		if o, ok := off.IntVal(); ok {
			if l, ok := n.IntVal(); ok {
				if o < 0 || o >= int64(len(as)) || l <= 0 {
					return mkStr("")
				}
				e := o + l
				if e > int64(len(as)) {
					e = int64(len(as))
				}
				return atomsToTerm(as[o:e])
			}
		}
	}
	return newTerm("str.substr", SStr, s, off, n)
}
func tStrReplaceAll(s, a, b *Term) *Term {
	if x, ok := s.StrVal(); ok {
		if y, ok := a.StrVal(); ok && y != "" {
			if z, ok := b.StrVal(); ok {
				return mkStr(strings.ReplaceAll(x, y, z))
			}
		}
	}
	return newTerm("str.replace_all", SStr, s, a, b)
}
func tStrAt(s, i *Term) *Term {
	return tStrSubstr(s, i, mkInt(1))
}
func tStrToCode(s *Term) *Term { // Int; -1 if len != 1
	if x, ok := s.StrVal(); ok {
		if len(x) == 1 {
			return mkInt(int64(x[0]))
		}
		return mkInt(-1)
	}
	return newTerm("str.to_code", SInt, s)
}
func tStrFromCode(i *Term) *Term {
	if x, ok := i.IntVal(); ok && x >= 0 && x < 256 {
		return mkStr(string([]byte{byte(x)}))
	}
	if i.Op == "bv2nat" && i.Args[0].Sort == SBV8 {
		return mkByteChar(i)
	}
	return newTerm("str.from_code", SStr, i)
}
func tStrFromInt(i *Term) *Term { // non-negative ints only; "" for negatives (SMT semantics)
	if x, ok := i.IntVal(); ok {
		if x < 0 {
			return mkStr("")
		}
		return mkStr(strconv.FormatInt(x, 10))
	}
	return newTerm("str.from_int", SStr, i)
}
func tStrToLower(s *Term) *Term {
	if x, ok := s.StrVal(); ok {
		b := []byte(x)
		for i, c := range b {
			if c >= 'A' && c <= 'Z' {
				b[i] = c + 32
			}
		}
		return mkStr(string(b))
	}
	// push lower-casing towards the leaves: it distributes over concatenation and ite, and
	// decimal renderings are unaffected (str.to_lower is by far the most expensive string op in cvc5)
	if s.Lower {
		return s
	}
	switch s.Op {
	case "str.++":
		return tStrConcat(tStrToLower(s.Args[0]), tStrToLower(s.Args[1]))
	case "ite":
		return tIte(s.Args[0], tStrToLower(s.Args[1]), tStrToLower(s.Args[2]))
	case "str.from_int", "str.to_lower":
		return s
	case "str.from_code":
		if s.K == "digit" {
			return s
		}
		if s.K == "byte" {
			c := s.Args[0]
			up := tAnd(tIntCmp(">=", c, mkInt(65)), tIntCmp("<=", c, mkInt(90)))
			return mkByteChar(tIte(up, tIntAdd(c, mkInt(32)), c))
		}
	}
	return newTerm("str.to_lower", SStr, s)
}
func tStrLt(a, b *Term) *Term {
	if x, ok := a.StrVal(); ok {
		if y, ok := b.StrVal(); ok {
			return mkBool(x < y)
		}
	}
	return newTerm("str.<", SBool, a, b)
}

// Int <-> BV bridging (used sparingly; DESIGN 2.3)
func tBVToInt(a *Term, signed bool) *Term {
	if x, ok := a.BVVal(); ok {
		if signed {
			return mkInt(sext(a.Sort.width(), x))
		}
		if x <= math.MaxInt64 {
			return mkInt(int64(x))
		}
	}
	if signed {
		// ite(bvslt a 0, bv2nat(a) - 2^w, bv2nat(a))
		w := a.Sort.width()
		n := newTerm("bv2nat", SInt, a)
		if w == 64 {
			// 2^64 does not fit int64: express as (- n 18446744073709551616) via raw
			raw := newTerm("raw", SInt, n)
			raw.K = "(- %s 18446744073709551616)"
			return tIte(tBVSlt(a, mkBV(a.Sort, 0)), raw, n)
		}
		return tIte(tBVSlt(a, mkBV(a.Sort, 0)), tIntSub(n, mkInt(int64(1)<<w)), n)
	}
	return newTerm("bv2nat", SInt, a)
}
func tIntToBV(a *Term, to Sort) *Term {
	if x, ok := a.IntVal(); ok {
		return mkBV(to, uint64(x))
	}
	t := newTerm("int2bv", to, a)
	t.K = to.width()
	return t
}

// ---------- printing ----------

func smtStringLit(s string) string {
	var b strings.Builder
	b.WriteByte('"')
	for i := 0; i < len(s); i++ {
		c := s[i]
		switch {
		case c == '"':
			b.WriteString(`""`)
		case c == '\\':
			b.WriteString(`\u{5c}`)
		case c >= 0x20 && c < 0x7f:
			b.WriteByte(c)
		default:
			fmt.Fprintf(&b, `\u{%x}`, c)
		}
	}
	b.WriteByte('"')
	return b.String()
}

func fpLit(bits uint64, eb, sb uint) string {
	total := 1 + eb + sb
	s := fmt.Sprintf("%0*b", int(total), bits)
	return fmt.Sprintf("(fp #b%s #b%s #b%s)", s[0:1], s[1:1+eb], s[1+eb:])
}

// SMT renders the term as a (possibly large) s-expression. Sharing is handled by the
// solver layer via define-fun for big nodes (see Solver.ref).
func (t *Term) SMT() string {
	var b strings.Builder
	t.write(&b, nil)
	return b.String()
}

func (t *Term) write(b *strings.Builder, ref func(*Term) (string, bool)) {
	if ref != nil {
		if name, ok := ref(t); ok {
			b.WriteString(name)
			return
		}
	}
	switch t.Op {
	case "const":
		switch t.Sort {
		case SBool:
			if t.K.(bool) {
				b.WriteString("true")
			} else {
				b.WriteString("false")
			}
		case SInt:
			v := t.K.(int64)
			if v < 0 {
				bi := new(big.Int).SetInt64(v)
				bi.Neg(bi)
				fmt.Fprintf(b, "(- %s)", bi.String())
			} else {
				fmt.Fprintf(b, "%d", v)
			}
		case SBV8, SBV16, SBV32, SBV64:
			fmt.Fprintf(b, "(_ bv%d %d)", t.K.(uint64), t.Sort.width())
		case SF64:
			b.WriteString(fpLit(math.Float64bits(t.K.(float64)), 11, 52))
		case SF32:
			b.WriteString(fpLit(uint64(math.Float32bits(float32(t.K.(float64)))), 8, 23))
		case SStr:
			b.WriteString(smtStringLit(t.K.(string)))
		}
		return
	case "var":
		b.WriteString(t.K.(string))
		return
	case "raw":
		var parts []interface{}
		for _, a := range t.Args {
			var sb strings.Builder
			a.write(&sb, ref)
			parts = append(parts, sb.String())
		}
		fmt.Fprintf(b, t.K.(string), parts...)
		return
	case "extract":
		k := t.K.([2]uint)
		fmt.Fprintf(b, "((_ extract %d %d) ", k[0], k[1])
		t.Args[0].write(b, ref)
		b.WriteByte(')')
		return
	case "zero_extend", "sign_extend":
		fmt.Fprintf(b, "((_ %s %d) ", t.Op, t.K.(uint))
		t.Args[0].write(b, ref)
		b.WriteByte(')')
		return
	case "int2bv":
		fmt.Fprintf(b, "((_ int2bv %d) ", t.K.(uint))
		t.Args[0].write(b, ref)
		b.WriteByte(')')
		return
	case "fp.add", "fp.sub", "fp.mul", "fp.div":
		fmt.Fprintf(b, "(%s RNE ", t.Op)
		t.Args[0].write(b, ref)
		b.WriteByte(' ')
		t.Args[1].write(b, ref)
		b.WriteByte(')')
		return
	case "to_fp_signed":
		b.WriteString("((_ to_fp 11 53) RNE ")
		t.Args[0].write(b, ref)
		b.WriteByte(')')
		return
	case "to_fp_unsigned":
		b.WriteString("((_ to_fp_unsigned 11 53) RNE ")
		t.Args[0].write(b, ref)
		b.WriteByte(')')
		return
	case "to_fp_int":
		b.WriteString("((_ to_fp 11 53) RNE (to_real ")
		t.Args[0].write(b, ref)
		b.WriteString("))")
		return
	case "fp.to_sbv", "fp.to_ubv":
		fmt.Fprintf(b, "((_ %s %d) RTZ ", t.Op, t.Sort.width())
		t.Args[0].write(b, ref)
		b.WriteByte(')')
		return
	case "in_re_printable":
		b.WriteString("(str.in_re ")
		t.Args[0].write(b, ref)
		b.WriteString(" (re.* (re.range \" \" \"~\")))")
		return
	case "in_re_lower":
		b.WriteString("(str.in_re ")
		t.Args[0].write(b, ref)
		b.WriteString(" (re.* (re.union (re.range \" \" \"@\") (re.range \"[\" \"~\"))))")
		return
	case "in_re_digits":
		b.WriteString("(str.in_re ")
		t.Args[0].write(b, ref)
		b.WriteString(" (re.++ (re.opt (str.to_re \"-\")) (re.+ (re.range \"0\" \"9\"))))")
		return
	case "in_re_bytes":
		b.WriteString("(str.in_re ")
		t.Args[0].write(b, ref)
		b.WriteString(" (re.* (re.range \"\\u{0}\" \"\\u{ff}\")))")
		return
	case "fp.roundToIntegral_RTZ":
		b.WriteString("(fp.roundToIntegral RTZ ")
		t.Args[0].write(b, ref)
		b.WriteByte(')')
		return
	case "f64_to_f32":
		b.WriteString("((_ to_fp 8 24) RNE ")
		t.Args[0].write(b, ref)
		b.WriteByte(')')
		return
	case "f32_to_f64":
		b.WriteString("((_ to_fp 11 53) RNE ")
		t.Args[0].write(b, ref)
		b.WriteByte(')')
		return
	}
	b.WriteByte('(')
	b.WriteString(t.Op)
	for _, a := range t.Args {
		b.WriteByte(' ')
		a.write(b, ref)
	}
	b.WriteByte(')')
}

// collectVars appends all var terms reachable from t (deduplicated by name).
func collectVars(t *Term, seen map[*Term]bool, out map[string]*Term) {
	if seen[t] {
		return
	}
	seen[t] = true
	if t.Op == "var" {
		out[t.K.(string)] = t
		return
	}
	for _, a := range t.Args {
		collectVars(a, seen, out)
	}
}

// size (capped) used to decide when to name a sub-term
func (t *Term) size(cap int) int {
	n := 1
	for _, a := range t.Args {
		if n > cap {
			return n
		}
		n += a.size(cap - n)
	}
	return n
}

// mentionsStrings reports whether the term involves the string theory (memoised).
func (t *Term) mentionsStrings() bool {
	if t.strFlag != 0 {
		return t.strFlag == 1
	}
	r := t.Sort == SStr
	if !r {
		for _, a := range t.Args {
			if a.mentionsStrings() {
				r = true
				break
			}
		}
	}
	if r {
		t.strFlag = 1
	} else {
		t.strFlag = 2
	}
	return r
}

// digitsTerm: the term renders as an optional '-' followed by decimal digits only.
func digitsTerm(x *Term) bool {
	switch x.Op {
	case "str.from_int":
		return true
	case "var":
		n := x.K.(string)
		return len(n) > 5 && n[:5] == "itoa!"
	case "const":
		s := x.K.(string)
		if s == "" {
			return false
		}
		for i := 0; i < len(s); i++ {
			if !(s[i] >= '0' && s[i] <= '9') && !(i == 0 && s[i] == '-') {
				return false
			}
		}
		return true
	}
	return false
}
