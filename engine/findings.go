package main

// Known findings (DESIGN 2.11): committed file, never written at run time.

import (
	"encoding/json"
	"os"
	"regexp"
	"strings"
)

type Finding struct {
	ID       string `json:"id"`
	Property string `json:"property"`
	Harness  string `json:"harness"`
	Kind     string `json:"kind"` // assert | panic | deadlock | race
	Label    string `json:"label,omitempty"`
	Region   string `json:"region,omitempty"` // SMT-LIB text over $var placeholders; empty = whole space
	Site     string `json:"site_contains,omitempty"`
	Detail   string `json:"detail_contains,omitempty"`
	A        string `json:"a_contains,omitempty"`
	B        string `json:"b_contains,omitempty"`
	What     string `json:"what"`
}

type FindingsFile struct {
	Findings []Finding `json:"findings"`
	Fixed    []string  `json:"fixed"`
}

var knownFindings FindingsFile

func loadFindings(path string) {
	b, err := os.ReadFile(path)
	if err != nil {
		return
	}
	json.Unmarshal(b, &knownFindings)
}

func findingsFor(harness, kind, label string) []Finding {
	var out []Finding
	for _, f := range knownFindings.Findings {
		if f.Harness == harness && f.Kind == kind && (kind != "assert" || f.Label == label) {
			out = append(out, f)
		}
	}
	return out
}

var placeholderRe = regexp.MustCompile(`\$[A-Za-z_][A-Za-z0-9_.:#\[\]]*`)

// regionTerm instantiates a region predicate on this path; nil if a variable does not exist here.
func (ex *Exec) regionTerm(region string) *Term {
	if strings.TrimSpace(region) == "" {
		return tTrue
	}
	var args []*Term
	missing := false
	txt := strings.ReplaceAll(region, "%", "%%")
	txt = placeholderRe.ReplaceAllStringFunc(txt, func(m string) string {
		sv := ex.varByNm[m[1:]]
		if sv == nil {
			// a vChoice: substitute its concrete value
			for i := len(ex.choices) - 1; i >= 0; i-- {
				if ex.choices[i].Name == m[1:] {
					args = append(args, mkInt(int64(ex.choices[i].V)))
					return "%s"
				}
			}
			missing = true
			return m
		}
		args = append(args, sv.T)
		return "%s"
	})
	if missing {
		return nil
	}
	t := newTerm("raw", SBool, args...)
	t.K = txt
	return t
}

func (ex *Exec) classifyViolation(rec *AssertRec, neg *Term) {
	fs := findingsFor(ex.harness, "assert", rec.Label)
	outside := neg
	for _, f := range fs {
		R := ex.regionTerm(f.Region)
		if R == nil {
			continue
		}
		r, _, _ := ex.sol.Check(tAnd(neg, R), nil)
		if r == Sat {
			ex.knownSeen = append(ex.knownSeen, f.ID)
		}
		outside = tAnd(outside, tNot(R))
	}
	r, model, msg := ex.sol.Check(outside, ex.modelTerms())
	switch r {
	case Sat:
		w := ex.buildWitness(model, "violation")
		w.Expect = append(ex.expectTrace(model), TraceEvent{Kind: "assert", Label: rec.Label, OK: false})
		ex.violations = append(ex.violations, &Violation{Kind: "assert", Label: rec.Label, Harness: ex.harness, Site: rec.Site, Witness: w})
	case Unknown:
		ex.unknowns = append(ex.unknowns, "violation-region "+rec.Label+": "+msg)
	}
}

func (ex *Exec) classifyCrash(res *PathResult) {
	fs := findingsFor(ex.harness, res.Outcome, "")
	for _, f := range fs {
		if f.Site != "" && !strings.Contains(res.PanicSite, f.Site) && !strings.Contains(res.Detail, f.Site) {
			continue
		}
		if f.Detail != "" && !strings.Contains(res.Detail, f.Detail) {
			continue
		}
		R := ex.regionTerm(f.Region)
		if R == nil {
			continue
		}
		// the crash happens for every value on this path; it is "known" if the path intersects the region
		r, _, _ := ex.sol.Check(R, nil)
		if r == Sat {
			ex.knownSeen = append(ex.knownSeen, f.ID)
			// outside the region?
			ro, model, _ := ex.sol.Check(tNot(R), ex.modelTerms())
			if ro == Sat {
				w := ex.buildWitness(model, res.Outcome)
				ex.violations = append(ex.violations, &Violation{Kind: res.Outcome, Harness: ex.harness, Site: res.PanicSite, Detail: res.Detail, Witness: w})
			}
			return
		}
	}
	r, model, _ := ex.sol.Check(nil, ex.modelTerms())
	if r == Sat {
		w := ex.buildWitness(model, res.Outcome)
		w.Expect = ex.expectTrace(model)
		ex.violations = append(ex.violations, &Violation{Kind: res.Outcome, Harness: ex.harness, Site: res.PanicSite, Detail: res.Detail, Witness: w})
	}
}

func (ex *Exec) classifyRace(rr RaceReport, w *Witness) {
	for _, f := range findingsFor(ex.harness, "race", "") {
		if (strings.Contains(rr.A, f.A) && strings.Contains(rr.B, f.B)) || (strings.Contains(rr.A, f.B) && strings.Contains(rr.B, f.A)) {
			ex.knownSeen = append(ex.knownSeen, f.ID)
			return
		}
	}
	var wc *Witness
	if w != nil {
		c := *w
		wc = &c
	}
	ex.violations = append(ex.violations, &Violation{Kind: "race", Harness: ex.harness, Site: rr.A + " <-> " + rr.B, Detail: "unsynchronised conflicting accesses (happens-before)", Witness: wc})
}
