package main

// Native side of the harness primitives: the same harness functions run on the compiled real
// code, reading solver witnesses (DESIGN 2.5, 2.12).

const nativePrims = `package PKGNAME

import (
	"encoding/json"
	"fmt"
	"io"
	"math"
	"os"
	"os/exec"
	"reflect"
	"runtime"
	"strconv"
	"strings"
	"sync"
	"time"
)

type verifWVal struct {
	Kind string ` + "`json:\"kind\"`" + `
	I    int64  ` + "`json:\"i\"`" + `
	U    uint64 ` + "`json:\"u\"`" + `
	F    string ` + "`json:\"f\"`" + `
	S    string ` + "`json:\"s\"`" + `
	B    bool   ` + "`json:\"b\"`" + `
}
type verifWitness struct {
	Harness string               ` + "`json:\"harness\"`" + `
	Values  map[string]verifWVal ` + "`json:\"values\"`" + `
	Choices map[string]int       ` + "`json:\"choices\"`" + `
	JSON    map[string]string    ` + "`json:\"json\"`" + `
	Preempts []verifPreempt      ` + "`json:\"preempts\"`" + `
	Order    []string            ` + "`json:\"order\"`" + `
}
type verifPreempt struct {
	Site string ` + "`json:\"site\"`" + `
	Occ  int    ` + "`json:\"occ\"`" + `
}
type verifEvent struct {
	Kind  string ` + "`json:\"kind\"`" + `
	Label string ` + "`json:\"label\"`" + `
	OK    bool   ` + "`json:\"ok,omitempty\"`" + `
	Val   string ` + "`json:\"val,omitempty\"`" + `
}
type verifJob struct {
	ID string        ` + "`json:\"id\"`" + `
	W  *verifWitness ` + "`json:\"w\"`" + `
}
type verifRun struct {
	ID      string       ` + "`json:\"id\"`" + `
	Trace   []verifEvent ` + "`json:\"trace\"`" + `
	Panic   string       ` + "`json:\"panic\"`" + `
	Timeout bool         ` + "`json:\"timeout\"`" + `
}

var (
	verifMu    sync.Mutex
	verifCur   *verifWitness
	verifOcc   map[string]int
	verifTrace []verifEvent
	verifSPCnt map[string]int
)

// verifSP is called by the instrumented copy of the library (sched confirmation binary only) before every
// synchronisation operation. When the witness carries the order in which the engine executed these
// operations (site#occurrence), each operation waits until its predecessors in that order have been
// released (giving up after 150 ms, in case the native run does not reach one of them); otherwise the
// goroutine whose operation the engine preempted is simply held for a while.
var (
	verifOrdIdx  map[string]int
	verifOrdNext int
	verifOrdCond *sync.Cond
)

func verifSP(site string) {
	verifMu.Lock()
	if verifSPCnt == nil {
		verifSPCnt = map[string]int{}
	}
	verifSPCnt[site]++
	n := verifSPCnt[site]
	if verifOrdCond == nil {
		verifOrdCond = sync.NewCond(&verifMu)
	}
	if verifCur != nil && len(verifCur.Order) > 0 {
		if verifOrdIdx == nil {
			verifOrdIdx = map[string]int{}
			for i, k := range verifCur.Order {
				verifOrdIdx[k] = i
			}
		}
		idx, ok := verifOrdIdx[site+"#"+strconv.Itoa(n)]
		if !ok || idx < verifOrdNext {
			verifMu.Unlock()
			return
		}
		deadline := time.Now().Add(150 * time.Millisecond)
		for verifOrdNext < idx && time.Now().Before(deadline) {
			// wake up periodically: sync.Cond has no timed wait
			go func() {
				time.Sleep(5 * time.Millisecond)
				verifMu.Lock()
				verifOrdCond.Broadcast()
				verifMu.Unlock()
			}()
			verifOrdCond.Wait()
		}
		if verifOrdNext < idx+1 {
			verifOrdNext = idx + 1
		}
		verifOrdCond.Broadcast()
		verifMu.Unlock()
		// let the operation that was just released take effect before its successor is released
		time.Sleep(time.Millisecond)
		return
	}
	hold := false
	if verifCur != nil {
		for _, p := range verifCur.Preempts {
			if p.Site == site && p.Occ == n {
				hold = true
			}
		}
	}
	verifMu.Unlock()
	if hold {
		time.Sleep(60 * time.Millisecond)
	}
}

type verifAssumeFailed struct{}

func verifName(prefix, name string) string {
	verifMu.Lock()
	defer verifMu.Unlock()
	n := verifOcc[prefix+name]
	verifOcc[prefix+name] = n + 1
	if n > 0 {
		return name + "#" + strconv.Itoa(n)
	}
	return name
}
func verifVal(name string) verifWVal {
	full := verifName("", name)
	if verifCur == nil {
		return verifWVal{}
	}
	return verifCur.Values[full]
}
func verifAdd(e verifEvent) {
	verifMu.Lock()
	verifTrace = append(verifTrace, e)
	verifMu.Unlock()
}

func vInt(name string) int       { return int(verifVal(name).I) }
func vInt64(name string) int64   { return verifVal(name).I }
func vUint8(name string) uint8   { return uint8(verifVal(name).U) }
func vBool(name string) bool     { return verifVal(name).B }
func vFloat64(name string) float64 {
	v := verifVal(name)
	if v.F == "" {
		return 0
	}
	b, _ := strconv.ParseUint(v.F, 16, 64)
	return math.Float64frombits(b)
}
func vString(name string, max int) string    { return verifVal(name).S }
func vStringLower(name string, max int) string { return verifVal(name).S }
func vRawString(name string, max int) string { return verifVal(name).S }
func vIntRange(name string, lo, hi int) int  { return int(verifVal(name).I) }
func vInt64Range(name string, lo, hi int64) int64 { return verifVal(name).I }
func vChoice(name string, n int) int {
	full := verifName("c:", name)
	if verifCur == nil {
		return 0
	}
	return verifCur.Choices[full]
}
func vJSON(name string, depth int) []byte {
	full := verifName("c:", name)
	if verifCur == nil {
		return []byte("null")
	}
	return []byte(verifCur.JSON[full])
}
func vJSONInvalid() []byte { return []byte("{\"jsonrpc\":") }
func vAssume(cond bool) {
	if !cond {
		panic(verifAssumeFailed{})
	}
}
func vAssert(label string, cond bool) { verifAdd(verifEvent{Kind: "assert", Label: label, OK: cond}) }
func vReach(label string)             { verifAdd(verifEvent{Kind: "reach", Label: label}) }
func vNoteStr(label string, s string) { verifAdd(verifEvent{Kind: "note", Label: label, Val: s}) }
func vNoteInt(label string, i int)    { verifAdd(verifEvent{Kind: "note", Label: label, Val: strconv.Itoa(i)}) }
func vNoteBool(label string, b bool)  { verifAdd(verifEvent{Kind: "note", Label: label, Val: strconv.FormatBool(b)}) }
func vSame(a, b float64) bool {
	return math.Float64bits(a) == math.Float64bits(b) || (a != a && b != b)
}
func vAnd(a, b bool) bool     { return a && b }
func vOr(a, b bool) bool      { return a || b }
func vImplies(a, b bool) bool { return !a || b }
func vNativeSkip(why string)  {}
func vRandByte(i int) uint8   { return uint8(i) }
func vSameJSON(a, b interface{}) bool {
	x, err1 := json.Marshal(a)
	y, err2 := json.Marshal(b)
	if err1 != nil || err2 != nil {
		return false
	}
	var u, v interface{}
	json.Unmarshal(x, &u)
	json.Unmarshal(y, &v)
	return reflect.DeepEqual(u, v)
}
func vRandConcrete(on bool)   {}
func vTickers(on bool)        {}
func vTimersEager(on bool)    {}
func vSched(on bool, maxSwitches int) {}
func vRace(on bool)                   {}
func vQuiesce()                       { time.Sleep(20 * time.Millisecond) }
func vYield()                         {}
func vEnvPoint()                      {}
func vJSONStrMax(n int)               {}
func vJSONNoExtra(on bool)            {}
func vUsedCryptoRand() bool           { return true }
func vEnvCalls() int                  { return -1 }
func vEnvCallArg(i int) time.Duration { return -1 }
var verifProcIn = map[*exec.Cmd]io.WriteCloser{}

// vProcStart starts a real child process that exits with the status written to its stdin.
func vProcStart() *exec.Cmd {
	cmd := exec.Command("/bin/sh", "-c", "read x; exit $x")
	in, err := cmd.StdinPipe()
	if err != nil {
		panic(err)
	}
	if err := cmd.Start(); err != nil {
		panic(err)
	}
	verifMu.Lock()
	verifProcIn[cmd] = in
	verifMu.Unlock()
	return cmd
}

// vProcExit makes the child exit with the given status.
func vProcExit(cmd *exec.Cmd, code int) {
	verifMu.Lock()
	in := verifProcIn[cmd]
	delete(verifProcIn, cmd)
	verifMu.Unlock()
	if in != nil {
		fmt.Fprintf(in, "%d\n", code)
		in.Close()
	}
}

// vGoroutines: goroutines running library code (a frame of this module that is not harness code),
// the calling goroutine excluded.
func vGoroutines() int {
	buf := make([]byte, 1<<20)
	buf = buf[:runtime.Stack(buf, true)]
	n := 0
	for i, g := range strings.Split(string(buf), "\n\n") {
		if i == 0 {
			continue // the caller
		}
		if strings.Contains(g, "trpc-mcp-go") && !strings.Contains(g, "verifRunOne") && !strings.Contains(g, "verifRunReplay") && !strings.Contains(g, "testing.") {
			n++
		}
	}
	return n
}
func vTier() int {
	if os.Getenv("VERIF_TIER") == "thorough" {
		return 1
	}
	return 0
}
func vChanFill(ch interface{}, n int) {
	v := reflect.ValueOf(ch)
	for i := 0; i < n && v.Len() < v.Cap(); i++ {
		v.Send(reflect.Zero(v.Type().Elem()))
	}
}

// verifNopLogger is what NewZapLogger yields under the engine (zap is not interpreted).
type verifNopLogger struct{}

func (verifNopLogger) Debug(args ...interface{})                 {}
func (verifNopLogger) Debugf(format string, args ...interface{}) {}
func (verifNopLogger) Info(args ...interface{})                  {}
func (verifNopLogger) Infof(format string, args ...interface{})  {}
func (verifNopLogger) Warn(args ...interface{})                  {}
func (verifNopLogger) Warnf(format string, args ...interface{})  {}
func (verifNopLogger) Error(args ...interface{})                 {}
func (verifNopLogger) Errorf(format string, args ...interface{}) {}
func (verifNopLogger) Fatal(args ...interface{})                 {}
func (verifNopLogger) Fatalf(format string, args ...interface{}) {}

func verifRunOne(fn func(), w *verifWitness) (run verifRun) {
	verifMu.Lock()
	verifCur = w
	verifOcc = map[string]int{}
	verifTrace = nil
	verifSPCnt = map[string]int{}
	verifOrdIdx = nil
	verifOrdNext = 0
	verifMu.Unlock()
	done := make(chan string, 1)
	go func() {
		defer func() {
			if r := recover(); r != nil {
				if _, ok := r.(verifAssumeFailed); ok {
					done <- "assume-failed"
					return
				}
				done <- fmt.Sprintf("panic: %v", r)
				return
			}
			done <- ""
		}()
		fn()
	}()
	select {
	case p := <-done:
		run.Panic = p
	case <-time.After(15 * time.Second):
		run.Timeout = true
	}
	verifMu.Lock()
	run.Trace = append([]verifEvent{}, verifTrace...)
	verifMu.Unlock()
	return run
}

func verifRunReplay(harnesses map[string]func()) {
	file := os.Getenv("VERIF_REPLAY")
	if file == "" {
		return
	}
	b, err := os.ReadFile(file)
	if err != nil {
		panic(err)
	}
	var jobs []verifJob
	if err := json.Unmarshal(b, &jobs); err != nil {
		panic(err)
	}
	// results are appended one JSON line per job so that a crash of the process (an uncaught panic in
	// a goroutine of the code under test) loses only the job that caused it
	skip, _ := strconv.Atoi(os.Getenv("VERIF_SKIP"))
	f, err := os.OpenFile(os.Getenv("VERIF_OUT"), os.O_CREATE|os.O_WRONLY|os.O_APPEND, 0644)
	if err != nil {
		panic(err)
	}
	defer f.Close()
	for i, j := range jobs {
		if i < skip {
			continue
		}
		fn := harnesses[j.W.Harness]
		if fn == nil {
			fmt.Fprintf(f, "{\"id\":%q,\"absent\":true}\n", j.ID)
			continue
		}
		fmt.Fprintf(f, "{\"id\":%q,\"started\":true}\n", j.ID)
		f.Sync()
		// VERIF_REPEAT: run the witness several times in this process (race confirmation: the runtime race
		// detector needs the two accesses to actually overlap in some run)
		if rep, _ := strconv.Atoi(os.Getenv("VERIF_REPEAT")); rep > 1 {
			for k := 1; k < rep; k++ {
				verifRunOne(fn, j.W)
			}
		}
		r := verifRunOne(fn, j.W)
		r.ID = j.ID
		out, _ := json.Marshal(r)
		f.Write(append(out, '\n'))
		f.Sync()
	}
}
`
