package main

// String normal form: predicates with a constant needle over concatenations of constants,
// single-character atoms (str.from_code) and general symbolic strings are expanded into
// Boolean combinations of character comparisons and small atoms on the symbolic parts.
// Most alignments fold to constants, so the solver sees little or no string reasoning.

// strPart: a maximal piece of a flattened concatenation.
type strAtom struct {
	c    byte  // constant char when code == nil
	code *Term // Int-sorted code point (0..255) otherwise
}
type strPart struct {
	atoms []strAtom // fixed-length piece
	v     *Term     // or a general symbolic string
}

func flattenStr(t *Term, out *[]*Term) {
	if t.Op == "str.++" {
		for _, a := range t.Args {
			flattenStr(a, out)
		}
		return
	}
	*out = append(*out, t)
}

func strPartsOf(t *Term) []strPart {
	var flat []*Term
	flattenStr(t, &flat)
	var parts []strPart
	addAtoms := func(as []strAtom) {
		if len(as) == 0 {
			return
		}
		if n := len(parts); n > 0 && parts[n-1].v == nil {
			parts[n-1].atoms = append(parts[n-1].atoms, as...)
			return
		}
		parts = append(parts, strPart{atoms: as})
	}
	for _, f := range flat {
		if s, ok := f.StrVal(); ok {
			as := make([]strAtom, len(s))
			for i := 0; i < len(s); i++ {
				as[i] = strAtom{c: s[i]}
			}
			addAtoms(as)
			continue
		}
		if f.Op == "str.from_code" && f.K == "byte" {
			addAtoms([]strAtom{{code: f.Args[0]}})
			continue
		}
		parts = append(parts, strPart{v: f})
	}
	return parts
}

func hasStructure(t *Term) bool {
	if t.Op == "str.++" {
		return true
	}
	return t.Op == "str.from_code" && t.K == "byte"
}

func atomEq(a strAtom, c byte) *Term {
	if a.code == nil {
		return mkBool(a.c == c)
	}
	if a.code.Op == "bv2nat" && a.code.Args[0].Sort == SBV8 {
		return tEq(a.code.Args[0], mkBV(SBV8, uint64(c)))
	}
	return tEq(a.code, mkInt(int64(c)))
}

// prefixOfParts: needle n is a prefix of the string denoted by parts (starting at atom offset off of parts[0]).
func prefixOfParts(n string, parts []strPart, off int) *Term {
	if n == "" {
		return tTrue
	}
	if len(parts) == 0 {
		return tFalse
	}
	p := parts[0]
	if p.v == nil {
		as := p.atoms[off:]
		r := tTrue
		k := len(as)
		if len(n) < k {
			k = len(n)
		}
		for i := 0; i < k; i++ {
			r = tAnd(r, atomEq(as[i], n[i]))
			if v, ok := r.BoolVal(); ok && !v {
				return tFalse
			}
		}
		if len(n) <= len(as) {
			return r
		}
		return tAnd(r, prefixOfParts(n[len(as):], parts[1:], 0))
	}
	// general symbolic part
	r := rawPrefixOf(mkStr(n), p.v)
	for j := 0; j < len(n); j++ {
		rest := prefixOfParts(n[j:], parts[1:], 0)
		if v, ok := rest.BoolVal(); ok && !v {
			continue
		}
		r = tOr(r, tAnd(tEq(p.v, mkStr(n[:j])), rest))
	}
	return r
}

func rawPrefixOf(p, s *Term) *Term { return newTerm("str.prefixof", SBool, p, s) }
func rawSuffixOf(p, s *Term) *Term { return newTerm("str.suffixof", SBool, p, s) }
func rawContains(s, n *Term) *Term { return newTerm("str.contains", SBool, s, n) }

func containsParts(parts []strPart, n string) *Term {
	if n == "" {
		return tTrue
	}
	r := tFalse
	for i, p := range parts {
		if p.v == nil {
			for off := range p.atoms {
				r = tOr(r, prefixOfParts(n, parts[i:], off))
				if v, ok := r.BoolVal(); ok && v {
					return tTrue
				}
			}
			continue
		}
		r = tOr(r, rawContains(p.v, mkStr(n)))
		for j := 1; j < len(n); j++ {
			rest := prefixOfParts(n[j:], parts[i+1:], 0)
			if v, ok := rest.BoolVal(); ok && !v {
				continue
			}
			r = tOr(r, tAnd(rawSuffixOf(mkStr(n[:j]), p.v), rest))
		}
	}
	return r
}

func reverseParts(parts []strPart) []strPart {
	out := make([]strPart, len(parts))
	for i, p := range parts {
		q := strPart{v: p.v}
		if p.v == nil {
			q.atoms = make([]strAtom, len(p.atoms))
			for k, a := range p.atoms {
				q.atoms[len(p.atoms)-1-k] = a
			}
		}
		out[len(parts)-1-i] = q
	}
	return out
}

// suffixOfParts: needle n is a suffix of parts.
func suffixOfParts(n string, parts []strPart) *Term {
	if n == "" {
		return tTrue
	}
	if len(parts) == 0 {
		return tFalse
	}
	last := parts[len(parts)-1]
	rest := parts[:len(parts)-1]
	if last.v == nil {
		as := last.atoms
		r := tTrue
		k := len(as)
		if len(n) < k {
			k = len(n)
		}
		for i := 0; i < k; i++ {
			r = tAnd(r, atomEq(as[len(as)-1-i], n[len(n)-1-i]))
			if v, ok := r.BoolVal(); ok && !v {
				return tFalse
			}
		}
		if len(n) <= len(as) {
			return r
		}
		return tAnd(r, suffixOfParts(n[:len(n)-len(as)], rest))
	}
	r := rawSuffixOf(mkStr(n), last.v)
	for j := 0; j < len(n); j++ {
		// last.v == n[len(n)-j:] and the rest ends with n[:len(n)-j]
		rs := suffixOfParts(n[:len(n)-j], rest)
		if v, ok := rs.BoolVal(); ok && !v {
			continue
		}
		r = tOr(r, tAnd(tEq(last.v, mkStr(n[len(n)-j:])), rs))
	}
	return r
}

// eqParts: parts == n
func eqParts(parts []strPart, n string) *Term {
	if len(parts) == 0 {
		return mkBool(n == "")
	}
	p := parts[0]
	if p.v == nil {
		if len(p.atoms) > len(n) {
			return tFalse
		}
		r := tTrue
		for i, a := range p.atoms {
			r = tAnd(r, atomEq(a, n[i]))
			if v, ok := r.BoolVal(); ok && !v {
				return tFalse
			}
		}
		return tAnd(r, eqParts(parts[1:], n[len(p.atoms):]))
	}
	if len(parts) == 1 {
		return newTerm("=", SBool, p.v, mkStr(n))
	}
	r := tFalse
	for j := 0; j <= len(n); j++ {
		rest := eqParts(parts[1:], n[j:])
		if v, ok := rest.BoolVal(); ok && !v {
			continue
		}
		r = tOr(r, tAnd(newTerm("=", SBool, p.v, mkStr(n[:j])), rest))
	}
	return r
}

// mkByteChar builds a one-character string from an Int code known to lie in 0..255.
func mkByteChar(code *Term) *Term {
	if c, ok := code.IntVal(); ok {
		return mkStr(string([]byte{byte(c)}))
	}
	t := newTerm("str.from_code", SStr, code)
	t.K = "byte"
	return t
}

// fixedAtoms returns the character atoms of t when t is a fixed-length character sequence.
func fixedAtoms(t *Term) ([]strAtom, bool) {
	if s, ok := t.StrVal(); ok {
		as := make([]strAtom, len(s))
		for i := 0; i < len(s); i++ {
			as[i] = strAtom{c: s[i]}
		}
		return as, true
	}
	if !hasStructure(t) {
		return nil, false
	}
	parts := strPartsOf(t)
	if len(parts) == 1 && parts[0].v == nil {
		return parts[0].atoms, true
	}
	return nil, false
}

func atomsToTerm(as []strAtom) *Term {
	var r *Term = mkStr("")
	for _, a := range as {
		if a.code == nil {
			r = tStrConcat(r, mkStr(string([]byte{a.c})))
		} else {
			r = tStrConcat(r, mkByteChar(a.code))
		}
	}
	return r
}
