package main

// String functions over ropes (strings with embedded JSON trees).
// JSON text facts assumed (DESIGN 2.7): json.Marshal output has no byte < 0x20 (so no CR/LF),
// starts with one of { [ " - 0-9 t f n, and ends with one of } ] " 0-9 e l.

import (
	"fmt"
	"strings"

	"golang.org/x/tools/go/ssa"
)

func jsonFirstChars(n *JNode) string {
	switch n.kind {
	case JObj:
		return "{"
	case JArr:
		return "["
	case JStr:
		return "\""
	case JBool:
		return "tf"
	case JNull:
		return "n"
	case JNum:
		return "-0123456789"
	}
	return "{[\"-0123456789tfn"
}
func jsonLastChars(n *JNode) string {
	switch n.kind {
	case JObj:
		return "}"
	case JArr:
		return "]"
	case JStr:
		return "\""
	case JBool:
		return "e"
	case JNull:
		return "l"
	case JNum:
		return "0123456789"
	}
	return "}]\"0123456789el"
}

func asRopeParts(v Value) []interface{} { return ropeParts(v) }

func mkRope(parts []interface{}) Value {
	var r Value = mkStr("")
	for _, p := range parts {
		switch x := p.(type) {
		case *Term:
			r = ropeConcat(r, x)
		case *JNode:
			r = ropeConcat(r, &Rope{parts: []interface{}{x}})
		}
	}
	return r
}

// ropeCut finds the first occurrence of the constant separator sep in v. Symbolic string
// parts fork on containment. A separator that could only match inside JSON text makes the
// operation unsupported unless sep contains a byte that JSON text cannot contain (< 0x20).
func (ex *Exec) ropeCut(v Value, sep string, site ssa.Instruction) (Value, Value, bool) {
	parts := asRopeParts(v)
	ctl := false
	for i := 0; i < len(sep); i++ {
		if sep[i] < 0x20 {
			ctl = true
		}
	}
	for i, p := range parts {
		switch x := p.(type) {
		case *Term:
			if c, ok := x.StrVal(); ok {
				if j := strings.Index(c, sep); j >= 0 {
					before := mkRope(append(append([]interface{}{}, parts[:i]...), mkStr(c[:j])))
					after := mkRope(append([]interface{}{mkStr(c[j+len(sep):])}, parts[i+1:]...))
					return before, after, true
				}
				continue
			}
			if digitOnlyTerm(x) && !strings.ContainsAny(sep, "0123456789-") {
				continue
			}
			if as, ok := fixedAtoms(x); ok && len(sep) == 1 {
				// a fixed-length character sequence: decide position by position (cheap byte comparisons)
				cutAt := -1
				for k, a := range as {
					if ex.branch(atomEq(a, sep[0]), site) {
						cutAt = k
						break
					}
				}
				if cutAt < 0 {
					continue
				}
				before := mkRope(append(append([]interface{}{}, parts[:i]...), atomsToTerm(as[:cutAt])))
				after := mkRope(append([]interface{}{atomsToTerm(as[cutAt+1:])}, parts[i+1:]...))
				return before, after, true
			}
			if ex.branch(tStrContains(x, mkStr(sep)), site) {
				j := tStrIndexOf(x, mkStr(sep), mkInt(0))
				b := tStrSubstr(x, mkInt(0), j)
				off := tIntAdd(j, mkInt(int64(len(sep))))
				a := tStrSubstr(x, off, tIntSub(tStrLen(x), off))
				before := mkRope(append(append([]interface{}{}, parts[:i]...), b))
				after := mkRope(append([]interface{}{a}, parts[i+1:]...))
				return before, after, true
			}
		case *JNode:
			if !ctl {
				panic(unsupported(fmt.Sprintf("searching %q inside JSON text at %s", sep, ex.site(site))))
			}
		}
	}
	return v, mkStr(""), false
}

func (ex *Exec) ropeSplit(site ssa.Instruction, r *Rope, sep *Term, n int) Value {
	sp, ok := sep.StrVal()
	if !ok || sp == "" {
		panic(unsupported("rope split with symbolic/empty separator"))
	}
	var out []Value
	var cur Value = r
	for n < 0 || len(out) < n-1 {
		b, a, found := ex.ropeCut(cur, sp, site)
		if !found {
			break
		}
		out = append(out, b)
		cur = a
		if len(out) > 64 {
			panic(&unwindFail{"rope split unwinding"})
		}
	}
	out = append(out, cur)
	return sliceOf(out...)
}

func (ex *Exec) ropeContains(r *Rope, sub *Term) *Term {
	s, ok := sub.StrVal()
	if !ok {
		panic(unsupported("rope contains symbolic"))
	}
	res := tFalse
	for _, p := range r.parts {
		switch x := p.(type) {
		case *Term:
			res = tOr(res, tStrContains(x, sub))
		case *JNode:
			ctl := false
			for i := 0; i < len(s); i++ {
				if s[i] < 0x20 {
					ctl = true
				}
			}
			if !ctl {
				panic(unsupported(fmt.Sprintf("Contains(%q) inside JSON text", s)))
			}
		}
	}
	return res
}

func (ex *Exec) ropeHasPrefix(r *Rope, p *Term) *Term {
	ps, ok := p.StrVal()
	if !ok {
		panic(unsupported("rope HasPrefix symbolic"))
	}
	if ps == "" {
		return tTrue
	}
	switch x := r.parts[0].(type) {
	case *Term:
		if c, ok := x.StrVal(); ok {
			if len(c) >= len(ps) {
				return mkBool(strings.HasPrefix(c, ps))
			}
			if !strings.HasPrefix(ps, c) {
				return tFalse
			}
			if len(r.parts) > 1 {
				if n, ok := r.parts[1].(*JNode); ok {
					if !strings.ContainsRune(jsonFirstChars(n), rune(ps[len(c)])) {
						return tFalse
					}
					if len(ps) == len(c)+1 && jsonFirstChars(n) == ps[len(c):] {
						return tTrue
					}
				}
			}
		}
	case *JNode:
		if !strings.ContainsRune(jsonFirstChars(x), rune(ps[0])) {
			return tFalse
		}
		if x.kind == JObj && ps == "{" {
			return tTrue
		}
		if x.kind == JArr && ps == "[" {
			return tTrue
		}
	}
	var desc []string
	for _, p := range r.parts {
		switch x := p.(type) {
		case *Term:
			desc = append(desc, valString(x))
		case *JNode:
			desc = append(desc, "<json>")
		}
	}
	panic(unsupported(fmt.Sprintf("HasPrefix(%q) on rope %v", ps, desc)))
}

func (ex *Exec) ropeHasSuffix(r *Rope, p *Term) *Term {
	ps, ok := p.StrVal()
	if !ok {
		panic(unsupported("rope HasSuffix symbolic"))
	}
	if ps == "" {
		return tTrue
	}
	last := r.parts[len(r.parts)-1]
	switch x := last.(type) {
	case *Term:
		if c, ok := x.StrVal(); ok {
			if len(c) >= len(ps) {
				return mkBool(strings.HasSuffix(c, ps))
			}
			if !strings.HasSuffix(ps, c) {
				return tFalse
			}
		}
	case *JNode:
		if !strings.ContainsRune(jsonLastChars(x), rune(ps[len(ps)-1])) {
			return tFalse
		}
	}
	panic(unsupported(fmt.Sprintf("HasSuffix(%q) on rope", ps)))
}

func (ex *Exec) ropeTrimPrefix(r *Rope, p *Term) Value {
	has := ex.ropeHasPrefix(r, p)
	hv, ok := has.BoolVal()
	if !ok {
		panic(unsupported("rope TrimPrefix undecided"))
	}
	if !hv {
		return r
	}
	ps, _ := p.StrVal()
	c, _ := r.parts[0].(*Term).StrVal()
	return mkRope(append([]interface{}{mkStr(c[len(ps):])}, r.parts[1:]...))
}

func (ex *Exec) ropeTrimSuffix(r *Rope, p *Term) Value {
	has := ex.ropeHasSuffix(r, p)
	hv, ok := has.BoolVal()
	if !ok {
		panic(unsupported("rope TrimSuffix undecided"))
	}
	if !hv {
		return r
	}
	ps, _ := p.StrVal()
	c, _ := r.parts[len(r.parts)-1].(*Term).StrVal()
	np := append(append([]interface{}{}, r.parts[:len(r.parts)-1]...), mkStr(c[:len(c)-len(ps)]))
	return mkRope(np)
}

func (ex *Exec) ropeTrimSpace(r *Rope) Value {
	parts := append([]interface{}{}, r.parts...)
	if t, ok := parts[0].(*Term); ok {
		if c, ok := t.StrVal(); ok {
			parts[0] = mkStr(strings.TrimLeft(c, " \t\n\r\v\f"))
		} else {
			panic(unsupported("TrimSpace on rope with symbolic head"))
		}
	}
	l := len(parts) - 1
	if t, ok := parts[l].(*Term); ok {
		if c, ok := t.StrVal(); ok {
			parts[l] = mkStr(strings.TrimRight(c, " \t\n\r\v\f"))
		} else {
			panic(unsupported("TrimSpace on rope with symbolic tail"))
		}
	}
	return mkRope(parts)
}

func (ex *Exec) ropeTrimRight(r *Rope, cut string) Value {
	parts := append([]interface{}{}, r.parts...)
	l := len(parts) - 1
	if t, ok := parts[l].(*Term); ok {
		if c, ok := t.StrVal(); ok {
			parts[l] = mkStr(strings.TrimRight(c, cut))
		} else {
			panic(unsupported("TrimRight on rope with symbolic tail"))
		}
	}
	return mkRope(parts)
}

// ropeJSON: if v is (whitespace +) exactly one JSON tree (+ whitespace) return it.
func ropeJSON(v Value) (*JNode, bool) {
	parts := asRopeParts(v)
	var node *JNode
	for _, p := range parts {
		switch x := p.(type) {
		case *Term:
			c, ok := x.StrVal()
			if !ok || strings.TrimSpace(c) != "" {
				return nil, false
			}
		case *JNode:
			if node != nil {
				return nil, false
			}
			node = x
		}
	}
	return node, node != nil
}

// digitOnlyTerm: terms known to render as an optional '-' and decimal digits.
func digitOnlyTerm(x *Term) bool {
	switch x.Op {
	case "str.from_int":
		return true
	case "var":
		return strings.HasPrefix(x.K.(string), "itoa!")
	case "str.from_code":
		return x.K == "digit"
	}
	return false
}
