package main

// SSA interpreter with symbolic leaves (DESIGN 2.2).

import (
	"fmt"
	"go/constant"
	"go/token"
	"go/types"
	"math"
	"strings"

	"golang.org/x/tools/go/ssa"
)

type Decision struct {
	N      int  // arity
	V      int  // chosen option
	Forced bool // only one feasible option (no alternative queued)
}

type TraceEvent struct {
	Kind  string `json:"kind"` // assert | reach | rec | panic
	Label string `json:"label"`
	OK    bool   `json:"ok,omitempty"`
	Val   string `json:"val,omitempty"`
}

type deferred struct {
	fn   Value
	args []Value
	site ssa.Instruction
}

type Frame struct {
	ex        *Exec
	th        *Thread
	fn        *ssa.Function
	env       map[ssa.Value]Value
	block     *ssa.BasicBlock
	prev      *ssa.BasicBlock
	defers    []*deferred
	result    Value
	panicking bool
	panicVal  *goPanic
	caller    *Frame
	callSite  ssa.Instruction
	inDefer   bool // frame is a deferred call run during panic (recover allowed)
	recoverOK bool
}

func (fr *Frame) get(v ssa.Value) Value {
	switch v := v.(type) {
	case *ssa.Const:
		return fr.ex.constVal(v)
	case *ssa.Function:
		return v
	case *ssa.Builtin:
		return v
	case *ssa.Global:
		return fr.ex.globalAddr(v)
	}
	if r, ok := fr.env[v]; ok {
		return r
	}
	panic(unsupported(fmt.Sprintf("get: no value for %s (%T) in %s", v.Name(), v, fr.fn)))
}

func (ex *Exec) constVal(c *ssa.Const) Value {
	t := c.Type()
	if c.Value == nil {
		if _, ok := t.(*types.TypeParam); ok {
			panic(unsupported("const of type param"))
		}
		return zero(t)
	}
	b, ok := t.Underlying().(*types.Basic)
	if !ok {
		panic(unsupported("const of non-basic type " + t.String()))
	}
	s, ok := sortOfBasic(b)
	if !ok {
		panic(unsupported("const basic " + b.String()))
	}
	switch s {
	case SBool:
		return mkBool(constant.BoolVal(c.Value))
	case SStr:
		if c.Value.Kind() == constant.String {
			return mkStr(constant.StringVal(c.Value))
		}
		// integer constant converted to string type
		if i, ok := constant.Int64Val(c.Value); ok {
			return mkStr(string(rune(i)))
		}
	case SF64, SF32:
		f, _ := constant.Float64Val(constant.ToFloat(c.Value))
		if s == SF32 {
			return mkF32(float32(f))
		}
		return mkF64(f)
	default:
		v := constant.ToInt(c.Value)
		if i, ok := constant.Int64Val(v); ok {
			return mkBV(s, uint64(i))
		}
		if u, ok := constant.Uint64Val(v); ok {
			return mkBV(s, u)
		}
	}
	panic(unsupported("const " + c.String()))
}

// ---------------------------------------------------------------------------------------
// running functions

func (ex *Exec) callSSA(caller *Frame, site ssa.Instruction, fn *ssa.Function, args []Value, env []Value) Value {
	if fn.Blocks == nil {
		panic(unsupported("no body for function " + fn.String()))
	}
	ex.depth++
	if ex.depth > 400 {
		panic(unsupported("call depth exceeded in " + fn.String()))
	}
	defer func() { ex.depth-- }()
	fr := &Frame{ex: ex, fn: fn, env: make(map[ssa.Value]Value, 16), caller: caller, callSite: site}
	if caller != nil {
		fr.th = caller.th
	} else {
		fr.th = ex.cur
	}
	ex.noteFunc(fn)
	for i, p := range fn.Params {
		fr.env[p] = args[i]
	}
	for i, fv := range fn.FreeVars {
		fr.env[fv] = env[i]
	}
	for _, l := range fn.Locals {
		slot := new(Value)
		*slot = zero(deref(l.Type()))
		fr.env[l] = slot
	}
	fr.block = fn.Blocks[0]
	fr.run()
	return fr.result
}

func deref(t types.Type) types.Type {
	if p, ok := t.Underlying().(*types.Pointer); ok {
		return p.Elem()
	}
	panic(fmt.Sprintf("deref of non-pointer %s", t))
}

// run executes the frame until return; handles Go-level panics by running defers.
func (fr *Frame) run() {
	for fr.block != nil {
		fr.runBlocks()
	}
}

func (fr *Frame) runBlocks() {
	defer func() {
		if fr.block == nil {
			return // normal return
		}
		r := recover()
		if r == nil {
			return
		}
		gp, ok := r.(*goPanic)
		if !ok {
			panic(r) // engine signal: propagate
		}
		// interpreted panic: run deferred calls, maybe recover
		fr.panicking = true
		fr.panicVal = gp
		fr.runDefers()
		// recovered: continue at the Recover block (or return zero values)
		if fr.fn.Recover != nil {
			fr.prev, fr.block = fr.block, fr.fn.Recover
		} else {
			fr.block = nil
			fr.result = fr.zeroResults()
		}
	}()
	for fr.block != nil {
		blk := fr.block
		// phis
		i := 0
		if fr.prev != nil {
			var idx = -1
			for k, p := range blk.Preds {
				if p == fr.prev {
					idx = k
					break
				}
			}
			var vals []Value
			for ; i < len(blk.Instrs); i++ {
				phi, ok := blk.Instrs[i].(*ssa.Phi)
				if !ok {
					break
				}
				vals = append(vals, fr.get(phi.Edges[idx]))
			}
			for k := 0; k < i; k++ {
				fr.env[blk.Instrs[k].(*ssa.Phi)] = vals[k]
			}
		}
		for ; i < len(blk.Instrs); i++ {
			fr.ex.steps++
			if fr.ex.steps > fr.ex.maxSteps {
				panic(&unwindFail{"step budget exceeded in " + fr.fn.String()})
			}
			if fr.visit(blk.Instrs[i]) {
				break // control transfer
			}
		}
	}
}

type unwindFail struct{ msg string }

func (fr *Frame) zeroResults() Value {
	res := fr.fn.Signature.Results()
	switch res.Len() {
	case 0:
		return nil
	case 1:
		return zero(res.At(0).Type())
	}
	return zero(res)
}

func (fr *Frame) runDefers() {
	for len(fr.defers) > 0 {
		d := fr.defers[len(fr.defers)-1]
		fr.defers = fr.defers[:len(fr.defers)-1]
		fr.runDefer(d)
	}
	if fr.panicking {
		panic(fr.panicVal)
	}
}

func (fr *Frame) runDefer(d *deferred) {
	defer func() {
		r := recover()
		if r == nil {
			return
		}
		if gp, ok := r.(*goPanic); ok {
			// new panic replaces the old
			fr.panicking = true
			fr.panicVal = gp
			return
		}
		panic(r)
	}()
	fr.ex.callWithDeferCtx(fr, d)
}

func (ex *Exec) callWithDeferCtx(fr *Frame, d *deferred) {
	old := ex.deferOwner
	ex.deferOwner = fr
	defer func() { ex.deferOwner = old }()
	ex.call(fr, d.site, d.fn, d.args, true)
}

func (ex *Exec) site(in ssa.Instruction) string {
	if in == nil {
		return "?"
	}
	p := ex.eng.P.prog.Fset.Position(in.Pos())
	fn := ""
	if in.Parent() != nil {
		fn = in.Parent().String()
	}
	if !p.IsValid() {
		return fn
	}
	f := p.Filename
	if i := strings.LastIndex(f, "/"); i >= 0 {
		f = f[i+1:]
	}
	return fmt.Sprintf("%s %s:%d", fn, f, p.Line)
}

func (fr *Frame) rtPanic(in ssa.Instruction, msg string) {
	panic(&goPanic{val: fr.ex.makeRuntimeError(msg), descr: "runtime error: " + msg, site: fr.ex.site(in), rt: true})
}

// visit interprets one instruction; returns true on control transfer.
func (fr *Frame) visit(in ssa.Instruction) bool {
	ex := fr.ex
	switch in := in.(type) {
	case *ssa.DebugRef:
	case *ssa.UnOp:
		fr.env[in] = fr.unop(in)
	case *ssa.BinOp:
		fr.env[in] = ex.binop(fr, in, in.Op, in.X.Type(), fr.get(in.X), fr.get(in.Y))
	case *ssa.Call:
		fn, args := fr.prepareCall(in, &in.Call)
		fr.env[in] = ex.call(fr, in, fn, args, false)
	case *ssa.ChangeInterface:
		fr.env[in] = fr.get(in.X)
	case *ssa.ChangeType:
		fr.env[in] = fr.get(in.X)
	case *ssa.Convert:
		fr.env[in] = ex.conv(fr, in, in.Type(), in.X.Type(), fr.get(in.X))
	case *ssa.MakeInterface:
		fr.env[in] = Iface{t: in.X.Type(), v: fr.get(in.X)}
	case *ssa.Extract:
		fr.env[in] = fr.get(in.Tuple).(Tuple)[in.Index]
	case *ssa.Slice:
		fr.env[in] = fr.sliceOp(in)
	case *ssa.Return:
		switch len(in.Results) {
		case 0:
		case 1:
			fr.result = fr.get(in.Results[0])
		default:
			res := make(Tuple, len(in.Results))
			for i, r := range in.Results {
				res[i] = fr.get(r)
			}
			fr.result = res
		}
		fr.block = nil
		return true
	case *ssa.RunDefers:
		fr.runDefers()
	case *ssa.Panic:
		v := fr.get(in.X)
		panic(&goPanic{val: v, descr: ex.describePanic(v), site: ex.site(in)})
	case *ssa.Send:
		ex.chanSend(fr, in, fr.get(in.Chan).(*ChanObj), fr.get(in.X))
	case *ssa.Store:
		addr := fr.get(in.Addr).(*Value)
		if addr == nil {
			fr.rtPanic(in, "invalid memory address or nil pointer dereference")
		}
		ex.access(addr, true, in)
		*addr = copyVal(fr.get(in.Val))
	case *ssa.If:
		c := fr.get(in.Cond).(*Term)
		succ := 1
		if ex.branch(c, in) {
			succ = 0
		}
		fr.prev, fr.block = fr.block, fr.block.Succs[succ]
		return true
	case *ssa.Jump:
		fr.prev, fr.block = fr.block, fr.block.Succs[0]
		return true
	case *ssa.Defer:
		fn, args := fr.prepareCall(in, &in.Call)
		fr.defers = append(fr.defers, &deferred{fn: fn, args: args, site: in})
	case *ssa.Go:
		fn, args := fr.prepareCall(in, &in.Call)
		ex.spawn(fr, in, fn, args)
	case *ssa.MakeChan:
		n, ok := fr.get(in.Size).(*Term).BVVal()
		if !ok {
			panic(unsupported("symbolic channel size"))
		}
		fr.env[in] = ex.newChan(int(n), in.Type().Underlying().(*types.Chan).Elem())
	case *ssa.Alloc:
		var addr *Value
		if in.Heap {
			addr = new(Value)
			fr.env[in] = addr
		} else {
			addr = fr.env[in].(*Value)
		}
		*addr = zero(deref(in.Type()))
		ex.noteAlloc(addr)
	case *ssa.MakeSlice:
		ln, ok1 := fr.get(in.Len).(*Term).BVVal()
		cp, ok2 := fr.get(in.Cap).(*Term).BVVal()
		if !ok1 || !ok2 {
			panic(unsupported("symbolic MakeSlice length at " + ex.site(in)))
		}
		et := in.Type().Underlying().(*types.Slice).Elem()
		a := make([]Value, cp)
		for i := range a {
			a[i] = zero(et)
		}
		fr.env[in] = Slice{a: a, n: int(ln)}
	case *ssa.MakeMap:
		mt := in.Type().Underlying().(*types.Map)
		fr.env[in] = ex.newMap(mt.Key(), mt.Elem())
	case *ssa.Range:
		fr.env[in] = ex.rangeIter(fr, in, fr.get(in.X))
	case *ssa.Next:
		fr.env[in] = ex.iterNext(fr, in, fr.get(in.Iter))
	case *ssa.FieldAddr:
		p := fr.get(in.X).(*Value)
		if p == nil {
			fr.rtPanic(in, "invalid memory address or nil pointer dereference")
		}
		fr.env[in] = &(*p).(Struct)[in.Field]
	case *ssa.Field:
		fr.env[in] = fr.get(in.X).(Struct)[in.Field]
	case *ssa.IndexAddr:
		fr.env[in] = fr.indexAddr(in)
	case *ssa.Index:
		fr.env[in] = fr.index(in)
	case *ssa.Lookup:
		fr.env[in] = ex.lookup(fr, in)
	case *ssa.MapUpdate:
		m := fr.get(in.Map).(*MapObj)
		if m == nil {
			panic(&goPanic{val: ex.makeRuntimeError("assignment to entry in nil map"), descr: "assignment to entry in nil map", site: ex.site(in), rt: true})
		}
		ex.mapStore(fr, in, m, fr.get(in.Key), copyVal(fr.get(in.Value)))
	case *ssa.TypeAssert:
		fr.env[in] = ex.typeAssert(fr, in)
	case *ssa.MakeClosure:
		b := make([]Value, len(in.Bindings))
		for i, x := range in.Bindings {
			b[i] = fr.get(x)
		}
		fr.env[in] = &Closure{fn: in.Fn.(*ssa.Function), env: b}
	case *ssa.Select:
		fr.env[in] = ex.selectOp(fr, in)
	case *ssa.SliceToArrayPointer:
		panic(unsupported("SliceToArrayPointer"))
	default:
		panic(unsupported(fmt.Sprintf("instruction %T", in)))
	}
	return false
}

func (fr *Frame) prepareCall(site ssa.Instruction, cc *ssa.CallCommon) (Value, []Value) {
	v := fr.get(cc.Value)
	var args []Value
	var fn Value
	if cc.Method == nil {
		fn = v
	} else {
		recv := v.(Iface)
		if recv.t == nil {
			fr.rtPanic(site, "invalid memory address or nil pointer dereference (method call on nil interface)")
		}
		recv = fr.ex.resolveIface(fr, site, recv)
		if in := fr.ex.ifaceIntrinsic(recv, cc.Method); in != nil {
			fn = in
			args = append(args, recv)
		} else {
			m := fr.ex.eng.P.prog.LookupMethod(recv.t, cc.Method.Pkg(), cc.Method.Name())
			if m == nil {
				panic(unsupported(fmt.Sprintf("method %s not found on %s", cc.Method.Name(), recv.t)))
			}
			fn = m
			args = append(args, recv.v)
		}
	}
	for _, a := range cc.Args {
		args = append(args, fr.get(a))
	}
	return fn, args
}

func (ex *Exec) call(fr *Frame, site ssa.Instruction, fn Value, args []Value, isDefer bool) Value {
	switch f := fn.(type) {
	case *ssa.Function:
		if f == nil {
			fr.rtPanic(site, "invalid memory address or nil pointer dereference (nil func)")
		}
		if h := ex.eng.intrinsicFor(f); h != nil {
			return h(ex, fr, site, args)
		}
		if f.Synthetic == "package initializer" {
			ex.ensureInit(f.Pkg)
			return nil
		}
		if !ex.eng.interpretable(f) {
			panic(unsupported("external function " + f.String() + " at " + ex.site(site)))
		}
		return ex.callSSA(fr, site, f, args, nil)
	case *Closure:
		if f == nil {
			fr.rtPanic(site, "invalid memory address or nil pointer dereference (nil func)")
		}
		if h := ex.eng.intrinsicFor(f.fn); h != nil {
			return h(ex, fr, site, append(append([]Value{}, f.env...), args...))
		}
		return ex.callSSA(fr, site, f.fn, args, f.env)
	case *ssa.Builtin:
		return ex.builtin(fr, site, f, args, isDefer)
	case *IntrinsicFn:
		h := intrinsics[f.name]
		if h == nil {
			panic(unsupported("intrinsic fn " + f.name))
		}
		return h(ex, fr, site, args)
	case nil:
		fr.rtPanic(site, "call of nil function")
	}
	panic(unsupported(fmt.Sprintf("call of %T", fn)))
}

// ---------------------------------------------------------------------------------------
// operators

func (fr *Frame) unop(in *ssa.UnOp) Value {
	ex := fr.ex
	x := fr.get(in.X)
	switch in.Op {
	case token.MUL: // load
		p := x.(*Value)
		if p == nil {
			fr.rtPanic(in, "invalid memory address or nil pointer dereference")
		}
		ex.access(p, false, in)
		return copyVal(*p)
	case token.NOT:
		return tNot(x.(*Term))
	case token.SUB:
		t := x.(*Term)
		switch {
		case t.Sort.isBV():
			return tBVNeg(t)
		case t.Sort == SInt:
			return ex.intArith("-", mkInt(0), t, in.Type())
		default:
			return tFNeg(t)
		}
	case token.XOR:
		return tBVNot(x.(*Term))
	case token.ARROW:
		return ex.chanRecv(fr, in, x.(*ChanObj), in.CommaOk)
	}
	panic(unsupported("unop " + in.Op.String()))
}

// intArith handles Int-backed arithmetic with interval tracking (DESIGN 2.3).
func (ex *Exec) intArith(op string, a, b *Term, t types.Type) *Term {
	var r *Term
	switch op {
	case "+":
		r = tIntAdd(a, b)
	case "-":
		r = tIntSub(a, b)
	case "*":
		r = tIntMul(a, b)
	default:
		panic(unsupported("Int-backed op " + op))
	}
	return r
}

func (ex *Exec) coerceInts(a, b *Term, signed bool) (*Term, *Term) {
	if a.Sort == b.Sort {
		return a, b
	}
	if a.Sort == SInt && b.Sort.isBV() {
		return a, tBVToInt(b, signed)
	}
	if b.Sort == SInt && a.Sort.isBV() {
		return tBVToInt(a, signed), b
	}
	return a, b
}

func (ex *Exec) binop(fr *Frame, site ssa.Instruction, op token.Token, t types.Type, x, y Value) Value {
	switch op {
	case token.EQL:
		return ex.valEq(x, y)
	case token.NEQ:
		return tNot(ex.valEq(x, y))
	}
	// string concat with ropes
	if op == token.ADD {
		_, xr := x.(*Rope)
		_, yr := y.(*Rope)
		if xr || yr {
			return ropeConcat(x, y)
		}
	}
	a, ok1 := x.(*Term)
	b, ok2 := y.(*Term)
	if !ok1 || !ok2 {
		panic(unsupported(fmt.Sprintf("binop %s on %T,%T at %s", op, x, y, ex.site(site))))
	}
	signed := isSigned(t)
	switch {
	case a.Sort == SStr:
		switch op {
		case token.ADD:
			return tStrConcat(a, b)
		case token.LSS:
			return tStrLt(a, b)
		case token.GTR:
			return tStrLt(b, a)
		case token.LEQ:
			return tNot(tStrLt(b, a))
		case token.GEQ:
			return tNot(tStrLt(a, b))
		}
	case a.Sort == SF64 || a.Sort == SF32:
		switch op {
		case token.ADD:
			return tFAdd(a, b)
		case token.SUB:
			return tFSub(a, b)
		case token.MUL:
			return tFMul(a, b)
		case token.QUO:
			return tFDiv(a, b)
		case token.LSS, token.LEQ, token.GTR, token.GEQ:
			// integral floats within +-2^53 (decoded JSON ids) compare as integers
			if a.IntOf != nil || b.IntOf != nil {
				if x, y, ok := intOfPair(a, b); ok {
					switch op {
					case token.LSS:
						return tIntCmp("<", x, y)
					case token.LEQ:
						return tIntCmp("<=", x, y)
					case token.GTR:
						return tIntCmp(">", x, y)
					default:
						return tIntCmp(">=", x, y)
					}
				}
			}
			switch op {
			case token.LSS:
				return tFCmp("fp.lt", a, b)
			case token.LEQ:
				return tFCmp("fp.leq", a, b)
			case token.GTR:
				return tFCmp("fp.gt", a, b)
			default:
				return tFCmp("fp.geq", a, b)
			}
		}
	case a.Sort == SBool:
		switch op {
		case token.AND, token.LAND:
			return tAnd(a, b)
		case token.OR, token.LOR:
			return tOr(a, b)
		}
	case a.Sort == SInt || b.Sort == SInt:
		if op == token.SHL || op == token.SHR {
			panic(unsupported("shift on Int-backed value"))
		}
		a, b = ex.coerceInts(a, b, signed)
		switch op {
		case token.ADD:
			return ex.intArith("+", a, b, t)
		case token.SUB:
			return ex.intArith("-", a, b, t)
		case token.MUL:
			return ex.intArith("*", a, b, t)
		case token.LSS:
			return tIntCmp("<", a, b)
		case token.LEQ:
			return tIntCmp("<=", a, b)
		case token.GTR:
			return tIntCmp(">", a, b)
		case token.GEQ:
			return tIntCmp(">=", a, b)
		case token.QUO, token.REM:
			if d, ok := b.IntVal(); ok && d > 0 {
				opn := "div"
				if op == token.REM {
					opn = "mod"
				}
				// Go truncates toward zero; SMT div floors: only equal for non-negative dividends
				nonneg := tIntCmp(">=", a, mkInt(0))
				if a.HasRng && a.Lo >= 0 {
					nonneg = tTrue
				}
				if v, ok := nonneg.BoolVal(); ok && v {
					r := newTerm(opn, SInt, a, b)
					if a.HasRng {
						if op == token.QUO {
							r.HasRng, r.Lo, r.Hi = true, a.Lo/d, a.Hi/d
						} else {
							r.HasRng, r.Lo, r.Hi = true, 0, d-1
						}
					}
					return r
				}
				if x, ok := a.IntVal(); ok {
					if op == token.REM {
						return mkInt(x % d)
					}
					return mkInt(x / d)
				}
				// truncation semantics: a/d = sign(a)*(|a| div d)
				abs := tIte(nonneg, a, tIntSub(mkInt(0), a))
				q := newTerm(opn, SInt, abs, b)
				return tIte(nonneg, q, tIntSub(mkInt(0), q))
			}
		}
	case a.Sort.isBV():
		if op == token.SHL || op == token.SHR {
			// shift count may have another width
			if b.Sort == SInt {
				panic(unsupported("Int-backed shift count"))
			}
			if b.Sort != a.Sort {
				if b.Sort.width() > a.Sort.width() {
					// saturate: if b >= width -> big shift
					big := tBVUle(mkBV(b.Sort, uint64(a.Sort.width())), b)
					nb := tBVResize(b, a.Sort, false)
					b = tIte(big, mkBV(a.Sort, uint64(a.Sort.width())), nb)
				} else {
					b = tBVResize(b, a.Sort, false)
				}
			}
			if op == token.SHL {
				return tBVShl(a, b)
			}
			if signed {
				return tBVAshr(a, b)
			}
			return tBVLshr(a, b)
		}
		if a.Sort != b.Sort {
			panic(unsupported(fmt.Sprintf("binop width mismatch %v %v at %s", a.Sort, b.Sort, ex.site(site))))
		}
		switch op {
		case token.ADD:
			return tBVAdd(a, b)
		case token.SUB:
			return tBVSub(a, b)
		case token.MUL:
			return tBVMul(a, b)
		case token.QUO, token.REM:
			zero := tEq(b, mkBV(b.Sort, 0))
			if ex.branch(zero, site) {
				fr.rtPanic(site, "integer divide by zero")
			}
			if op == token.QUO {
				if signed {
					return tBVSDiv(a, b)
				}
				return tBVUDiv(a, b)
			}
			if signed {
				return tBVSRem(a, b)
			}
			return tBVURem(a, b)
		case token.AND:
			return tBVAnd(a, b)
		case token.OR:
			return tBVOr(a, b)
		case token.XOR:
			return tBVXor(a, b)
		case token.AND_NOT:
			return tBVAnd(a, tBVNot(b))
		case token.LSS:
			if signed {
				return tBVSlt(a, b)
			}
			return tBVUlt(a, b)
		case token.LEQ:
			if signed {
				return tBVSle(a, b)
			}
			return tBVUle(a, b)
		case token.GTR:
			if signed {
				return tBVSlt(b, a)
			}
			return tBVUlt(b, a)
		case token.GEQ:
			if signed {
				return tBVSle(b, a)
			}
			return tBVUle(b, a)
		}
	}
	panic(unsupported(fmt.Sprintf("binop %s on sort %v at %s", op, a.Sort, ex.site(site))))
}

// valEq: Go == as a Bool term.
func (ex *Exec) valEq(x, y Value) *Term {
	switch a := x.(type) {
	case *Term:
		b, ok := y.(*Term)
		if !ok {
			if r, ok := y.(*Rope); ok {
				return ex.ropeEq(r, a)
			}
			panic(unsupported(fmt.Sprintf("eq Term vs %T", y)))
		}
		if a.Sort != b.Sort {
			a, b = ex.coerceInts(a, b, true)
		}
		return tEq(a, b)
	case *Rope:
		switch b := y.(type) {
		case *Term:
			return ex.ropeEq(a, b)
		case *Rope:
			if a == b {
				return tTrue
			}
		}
		panic(unsupported("eq on ropes"))
	case *Value:
		b, ok := y.(*Value)
		if !ok {
			return tFalse
		}
		return mkBool(a == b)
	case Iface:
		b, ok := y.(Iface)
		if !ok {
			panic(unsupported(fmt.Sprintf("eq Iface vs %T", y)))
		}
		if a.t == nil || b.t == nil {
			return mkBool(a.t == nil && b.t == nil)
		}
		if isLazyIface(a) || isLazyIface(b) {
			a = ex.resolveIface(nil, nil, a)
			b = ex.resolveIface(nil, nil, b)
		}
		if !types.Identical(a.t, b.t) {
			return tFalse
		}
		if !types.Comparable(a.t) {
			panic(&goPanic{val: ex.makeRuntimeError("comparing uncomparable type " + a.t.String()), descr: "runtime error: comparing uncomparable type " + a.t.String(), rt: true})
		}
		return ex.valEq(a.v, b.v)
	case Struct:
		b := y.(Struct)
		r := tTrue
		for i := range a {
			r = tAnd(r, ex.valEq(a[i], b[i]))
		}
		return r
	case Array:
		b := y.(Array)
		r := tTrue
		for i := range a {
			r = tAnd(r, ex.valEq(a[i], b[i]))
		}
		return r
	case *ChanObj:
		b, _ := y.(*ChanObj)
		return mkBool(a == b)
	case *MapObj:
		b, _ := y.(*MapObj)
		return mkBool(a == b)
	case Slice:
		b, ok := y.(Slice)
		if ok && (a.nil || b.nil) {
			// comparison with nil
			if a.nil && b.nil {
				return tTrue
			}
			return tFalse
		}
	case ByteStr:
		if b, ok := y.(Slice); ok && b.nil {
			return tFalse
		}
	case *Closure:
		if isNilFunc(y) {
			return mkBool(a == nil)
		}
	case *ssa.Function:
		if isNilFunc(y) {
			return mkBool(a == nil)
		}
	case *IntrinsicFn:
		if isNilFunc(y) {
			return tFalse
		}
	case nil:
		return mkBool(isNilFunc(y))
	}
	if s, ok := y.(Slice); ok && s.nil {
		if _, ok := x.(ByteStr); ok {
			return tFalse
		}
	}
	panic(unsupported(fmt.Sprintf("eq on %T vs %T", x, y)))
}

func (ex *Exec) conv(fr *Frame, site ssa.Instruction, dst, src types.Type, x Value) Value {
	du, su := dst.Underlying(), src.Underlying()
	// string <-> []byte
	if isString(du) {
		switch v := x.(type) {
		case ByteStr:
			return v.s
		case Slice:
			if isByteSlice(su) {
				// concatenate bytes
				var r *Term = mkStr("")
				for i := 0; i < v.n; i++ {
					bt := v.a[i].(*Term)
					r = tStrConcat(r, tStrFromCode(tBVToInt(bt, false)))
				}
				return r
			}
			panic(unsupported("string(slice) of non-byte slice"))
		case *Term:
			if v.Sort == SStr {
				return v
			}
			if v.Sort.isBV() { // string(rune)
				if c, ok := v.BVVal(); ok {
					return mkStr(string(rune(sext(v.Sort.width(), c))))
				}
				panic(unsupported("string(symbolic rune)"))
			}
		case *Rope:
			return v
		}
	}
	if isByteSlice(du) {
		switch v := x.(type) {
		case *Term:
			if v.Sort == SStr {
				return ByteStr{s: v}
			}
		case *Rope:
			return ByteStr{s: v}
		}
	}
	t, ok := x.(*Term)
	if !ok {
		// pointer / unsafe conversions
		if _, ok := du.(*types.Pointer); ok {
			return x
		}
		if b, ok := du.(*types.Basic); ok && b.Kind() == types.UnsafePointer {
			return x
		}
		panic(unsupported(fmt.Sprintf("convert %s -> %s of %T at %s", src, dst, x, ex.site(site))))
	}
	db, ok := du.(*types.Basic)
	if !ok {
		panic(unsupported(fmt.Sprintf("convert to %s", dst)))
	}
	ds, ok := sortOfBasic(db)
	if !ok {
		panic(unsupported("convert to basic " + db.String()))
	}
	switch {
	case t.Sort == SInt:
		switch {
		case ds.isBV():
			return t // stays Int-backed; range kept by the harness bound
		case ds == SF64:
			return tIntToF64(t)
		}
	case t.Sort.isBV():
		switch {
		case ds.isBV():
			return tBVResize(t, ds, isSigned(src))
		case ds == SF64:
			return tBVToF64(t, isSigned(src))
		case ds == SF32:
			f := tBVToF64(t, isSigned(src))
			if v, ok := f.F64Val(); ok {
				return mkF32(float32(v))
			}
			return newTerm("f64_to_f32", SF32, f)
		}
	case t.Sort == SF64 || t.Sort == SF32:
		switch {
		case ds == t.Sort:
			return t
		case ds == SF64:
			if v, ok := t.F64Val(); ok {
				return mkF64(v)
			}
			return newTerm("f32_to_f64", SF64, t)
		case ds == SF32:
			if v, ok := t.F64Val(); ok {
				return mkF32(float32(v))
			}
			return newTerm("f64_to_f32", SF32, t)
		case ds.isBV():
			if t.IntOf != nil && ds == SBV64 {
				return t.IntOf // exact: the float is an integer within +-2^53
			}
			return ex.floatToInt(t, ds, isSigned(dst), site)
		}
	case t.Sort == SStr:
		if ds == SStr {
			return t
		}
	case t.Sort == SBool && ds == SBool:
		return t
	}
	panic(unsupported(fmt.Sprintf("convert %s -> %s (sort %v) at %s", src, dst, t.Sort, ex.site(site))))
}

// floatToInt models Go's float->int conversion: exact truncation when representable,
// otherwise an unconstrained fresh value (implementation-defined; DESIGN 2.3).
func (ex *Exec) floatToInt(f *Term, ds Sort, signed bool, site ssa.Instruction) *Term {
	if f.Sort == SF32 {
		if v, ok := f.F64Val(); ok {
			f = mkF64(v)
		} else {
			f = newTerm("f32_to_f64", SF64, f)
		}
	}
	if v, ok := f.F64Val(); ok {
		w := ds.width()
		if signed {
			lim := math.Ldexp(1, int(w)-1)
			if v == v && v >= -lim && v < lim {
				return mkBV(ds, uint64(int64(v)))
			}
		} else {
			lim := math.Ldexp(1, int(w))
			if v == v && v > -1 && v < lim {
				return mkBV(ds, uint64(v))
			}
		}
		// out of range: amd64 behaviour for the replay is 0x8000.., but any value is allowed
		return ex.fresh("f2i", ds)
	}
	w := ds.width()
	var inRange *Term
	var cv *Term
	if signed {
		lim := math.Ldexp(1, int(w)-1)
		inRange = tAnd(tFCmp("fp.geq", f, mkF64(-lim)), tFCmp("fp.lt", f, mkF64(lim)))
		cv = tF64ToSBV(f, ds)
	} else {
		lim := math.Ldexp(1, int(w))
		inRange = tAnd(tFCmp("fp.gt", f, mkF64(-1)), tFCmp("fp.lt", f, mkF64(lim)))
		cv = tF64ToUBV(f, ds)
	}
	fr := ex.fresh("f2i", ds)
	return tIte(inRange, cv, fr)
}

// ---------------------------------------------------------------------------------------
// slices, indexing

func (ex *Exec) concreteInt(v Value, what string, site ssa.Instruction) int {
	t := v.(*Term)
	if u, ok := t.BVVal(); ok {
		return int(sext(t.Sort.width(), u))
	}
	if i, ok := t.IntVal(); ok {
		return int(i)
	}
	// symbolic index: concretise by forking over feasible small values is expensive; unsupported for now
	panic(unsupported("symbolic " + what + " at " + ex.site(site)))
}

func (fr *Frame) sliceOp(in *ssa.Slice) Value {
	ex := fr.ex
	x := fr.get(in.X)
	var lo, hi, mx = -1, -1, -1
	switch v := x.(type) {
	case *Term, *Rope:
		// string slicing
		return ex.strSlice(fr, in, x, in.Low, in.High)
	case ByteStr:
		r := ex.strSlice(fr, in, v.s, in.Low, in.High)
		return ByteStr{s: r}
	}
	if in.Low != nil {
		lo = ex.concreteInt(fr.get(in.Low), "slice low", in)
	}
	if in.High != nil {
		hi = ex.concreteInt(fr.get(in.High), "slice high", in)
	}
	if in.Max != nil {
		mx = ex.concreteInt(fr.get(in.Max), "slice max", in)
	}
	switch v := x.(type) {
	case Slice:
		if lo < 0 {
			lo = 0
		}
		if hi < 0 {
			hi = v.n
		}
		if mx < 0 {
			mx = len(v.a)
		}
		if lo > hi || hi > mx || mx > len(v.a) {
			fr.rtPanic(in, fmt.Sprintf("slice bounds out of range [%d:%d:%d] with capacity %d", lo, hi, mx, len(v.a)))
		}
		if v.nil {
			return Slice{nil: true}
		}
		return Slice{a: v.a[lo:mx], n: hi - lo}
	case *Value: // *array
		if v == nil {
			fr.rtPanic(in, "invalid memory address or nil pointer dereference")
		}
		arr := (*v).(Array)
		if lo < 0 {
			lo = 0
		}
		if hi < 0 {
			hi = len(arr)
		}
		if mx < 0 {
			mx = len(arr)
		}
		if lo > hi || hi > mx || mx > len(arr) {
			fr.rtPanic(in, "slice bounds out of range")
		}
		return Slice{a: []Value(arr)[lo:mx], n: hi - lo}
	}
	panic(unsupported(fmt.Sprintf("slice of %T", x)))
}

func (fr *Frame) indexAddr(in *ssa.IndexAddr) Value {
	ex := fr.ex
	x := fr.get(in.X)
	switch v := x.(type) {
	case Slice:
		i := ex.concreteIndex(fr, fr.get(in.Index), v.n, in)
		ex.noteElem(&v.a[i])
		return &v.a[i]
	case *Value:
		if v == nil {
			fr.rtPanic(in, "invalid memory address or nil pointer dereference")
		}
		arr := (*v).(Array)
		i := ex.concreteIndex(fr, fr.get(in.Index), len(arr), in)
		return &arr[i]
	case ByteStr:
		// materialise a read-only element
		s, ok := v.s.(*Term)
		if !ok {
			panic(unsupported("IndexAddr on rope bytes"))
		}
		idx := fr.get(in.Index).(*Term)
		c := ex.strByteAt(fr, in, s, idx)
		slot := new(Value)
		*slot = c
		return slot
	}
	panic(unsupported(fmt.Sprintf("IndexAddr on %T at %s", x, ex.site(in))))
}

// concreteIndex returns a concrete in-range index; a symbolic index is enumerated by forking.
func (ex *Exec) concreteIndex(fr *Frame, iv Value, n int, site ssa.Instruction) int {
	t := iv.(*Term)
	if u, ok := t.BVVal(); ok {
		i := sext(t.Sort.width(), u)
		if i < 0 || i >= int64(n) {
			fr.rtPanic(site, fmt.Sprintf("index out of range [%d] with length %d", i, n))
		}
		return int(i)
	}
	if i, ok := t.IntVal(); ok {
		if i < 0 || i >= int64(n) {
			fr.rtPanic(site, fmt.Sprintf("index out of range [%d] with length %d", i, n))
		}
		return int(i)
	}
	// fork over 0..n-1 and out-of-range
	for i := 0; i < n; i++ {
		var eq *Term
		if t.Sort == SInt {
			eq = tEq(t, mkInt(int64(i)))
		} else {
			eq = tEq(t, mkBV(t.Sort, uint64(i)))
		}
		if ex.branch(eq, site) {
			return i
		}
	}
	fr.rtPanic(site, fmt.Sprintf("index out of range [symbolic] with length %d", n))
	return 0
}

func (fr *Frame) index(in *ssa.Index) Value {
	ex := fr.ex
	x := fr.get(in.X)
	switch v := x.(type) {
	case Array:
		i := ex.concreteIndex(fr, fr.get(in.Index), len(v), in)
		return v[i]
	case *Term:
		if v.Sort == SStr {
			return ex.strByteAt(fr, in, v, fr.get(in.Index).(*Term))
		}
	}
	panic(unsupported(fmt.Sprintf("Index on %T", x)))
}

// strByteAt: s[i] with bounds check; returns BV8.
func (ex *Exec) strByteAt(fr *Frame, site ssa.Instruction, s *Term, idx *Term) *Term {
	// constant table indexed by a symbolic bit-vector (e.g. hex digits): ite chain, no string theory
	if sv, ok := s.StrVal(); ok && idx.Sort.isBV() && !idx.IsConst() && len(sv) <= 64 {
		n := mkBV(idx.Sort, uint64(len(sv)))
		if !ex.branch(tBVUlt(idx, n), site) {
			fr.rtPanic(site, "index out of range (string)")
		}
		var r *Term = mkBV(SBV8, uint64(sv[len(sv)-1]))
		for k := len(sv) - 2; k >= 0; k-- {
			r = tIte(tEq(idx, mkBV(idx.Sort, uint64(k))), mkBV(SBV8, uint64(sv[k])), r)
		}
		return r
	}
	var ii *Term
	if idx.Sort == SInt {
		ii = idx
	} else {
		ii = tBVToInt(idx, true)
	}
	// structured string (constants and single-character atoms) at a concrete position
	if i, ok := ii.IntVal(); ok && hasStructure(s) {
		parts := strPartsOf(s)
		if len(parts) == 1 && parts[0].v == nil {
			as := parts[0].atoms
			if i < 0 || int(i) >= len(as) {
				fr.rtPanic(site, "index out of range (string)")
			}
			a := as[i]
			if a.code == nil {
				return mkBV(SBV8, uint64(a.c))
			}
			if a.code.Op == "bv2nat" && a.code.Args[0].Sort == SBV8 {
				return a.code.Args[0]
			}
			return tIntToBV(a.code, SBV8)
		}
	}
	inb := tAnd(tIntCmp(">=", ii, mkInt(0)), tIntCmp("<", ii, tStrLen(s)))
	if !ex.branch(inb, site) {
		fr.rtPanic(site, "index out of range (string)")
	}
	if sv, ok := s.StrVal(); ok {
		if i, ok := ii.IntVal(); ok {
			return mkBV(SBV8, uint64(sv[i]))
		}
	}
	code := tStrToCode(tStrAt(s, ii))
	return tIntToBV(code, SBV8)
}

// ---------------------------------------------------------------------------------------
// type assertions

func (ex *Exec) typeAssert(fr *Frame, in *ssa.TypeAssert) Value {
	x := fr.get(in.X).(Iface)
	ok := false
	var res Value
	if isLazyIface(x) {
		if it, isIface := in.AssertedType.Underlying().(*types.Interface); isIface {
			if it.NumMethods() == 0 {
				ok, res = true, x
			}
		} else {
			res, ok = ex.lazyTypeAssert(fr, in, x, in.AssertedType)
		}
		if !ok && !in.CommaOk {
			x = ex.resolveIface(fr, in, x) // for the panic message
		}
	} else if x.t != nil {
		if it, isIface := in.AssertedType.Underlying().(*types.Interface); isIface {
			ok = ex.implements(x.t, it)
			if ok {
				res = x
			}
		} else {
			ok = types.Identical(x.t, in.AssertedType)
			if ok {
				res = x.v
			}
		}
	}
	if in.CommaOk {
		if !ok {
			res = zero(in.AssertedType)
		}
		return Tuple{res, mkBool(ok)}
	}
	if !ok {
		tn := "nil"
		if x.t != nil {
			tn = x.t.String()
		}
		msg := fmt.Sprintf("interface conversion: interface is %s, not %s", tn, in.AssertedType)
		panic(&goPanic{val: ex.makeRuntimeError(msg), descr: msg, site: ex.site(in), rt: true})
	}
	return res
}

func (ex *Exec) implements(t types.Type, it *types.Interface) bool {
	if it.NumMethods() == 0 {
		return true
	}
	return types.Implements(t, it)
}

func (ex *Exec) describePanic(v Value) string {
	if i, ok := v.(Iface); ok {
		if i.t == nil {
			return "panic(nil)"
		}
		if t, ok := i.v.(*Term); ok {
			return "panic: " + valString(t)
		}
		return "panic of " + i.t.String()
	}
	return "panic " + valString(v)
}

// intOfPair: both floats as exact integers (IntOf terms or integral constants), when possible.
func intOfPair(a, b *Term) (*Term, *Term, bool) {
	conv := func(t *Term) (*Term, bool) {
		if t.IntOf != nil {
			return t.IntOf, true
		}
		if f, ok := t.F64Val(); ok && f == float64(int64(f)) && f < 9.3e18 && f > -9.3e18 {
			return mkInt(int64(f)), true
		}
		return nil, false
	}
	x, ok1 := conv(a)
	y, ok2 := conv(b)
	return x, y, ok1 && ok2
}
