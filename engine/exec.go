package main

// Per-path execution state: decisions, path condition, globals, symbolic variables.

import (
	"fmt"
	"go/types"
	"sort"
	"strings"

	"golang.org/x/tools/go/ssa"
)

type Engine struct {
	P        *Program
	opts     Options
	harnPkgs []string
	fnNote   map[string]bool // functions whose SSA was interpreted (union over paths)
	interpOK map[*ssa.Function]int8
}

type Options struct {
	MaxDecisions    int
	MaxSteps        int
	Verbose         bool
	Tier            string
	SolverTimeoutMs int
	Cross           bool
}

type SymVar struct {
	Name string
	T    *Term
	Kind string // int, int64, float64, string, bool, choice, json...
}

type Exec struct {
	eng    *Engine
	sol    *Solver
	prefix []Decision
	pos    int
	decs   []Decision   // decisions taken on this path (prefix + new)
	alts   [][]Decision // alternative prefixes discovered
	pcN    int

	globals    map[*ssa.Global]*Value
	initDone   map[*ssa.Package]bool
	steps      int
	maxSteps   int
	depth      int
	deferOwner *Frame

	vars     []*SymVar
	varByNm  map[string]*SymVar
	freshN   int
	occ      map[string]int
	trace    []TraceEvent
	reached  map[string]bool
	funcs    map[string]bool
	asserts  []*AssertRec
	harness  string
	nChan    int
	nMap     int
	nAssumes int

	// threads
	threads   []*Thread
	cur       *Thread
	killing   bool
	pending   interface{}
	schedOn   bool
	switches  int
	maxSwitch int

	// race detection
	raceOn  bool
	shadow  map[*Value]*shadowCell
	races   []RaceReport
	objName map[*Value]string

	hctx map[string]interface{} // intrinsic-side per-path state
	jsonCount int

	choices      []namedChoice
	jsonInputs   []jsonInput
	notes        []noteRec
	violated     []*AssertRec
	violations   []*Violation
	knownSeen    []string
	unknowns     []string
	engineErrors []string
	nondetEnv    int
	spins        []string
	spCount      map[string]int
	preempts     []Preempt
	order        []string // executed synchronisation operations (site#occurrence) once schedule exploration was on
	everSched    bool
	lazyRun      int
	vtime        int64 // virtual time for timer ordering
	strFacts     map[*Term]*strFact
}

type AssertRec struct {
	Label   string
	Harness string
	Result  SatResult // Unsat = holds on this path
	Model   map[string]ModelVal
	Cond    *Term
	Site    string
	Known   string // id of known finding region matched
	OutsideKnown bool
}

func (ex *Exec) noteFunc(fn *ssa.Function) {
	if inModule(fn) {
		n := fn.String()
		if !ex.funcs[n] {
			ex.funcs[n] = true
		}
	}
}

func (ex *Exec) noteAlloc(p *Value) {}
func (ex *Exec) noteElem(p *Value)  {}

func (ex *Exec) fresh(prefix string, s Sort) *Term {
	ex.freshN++
	name := fmt.Sprintf("%s!%d", prefix, ex.freshN)
	t := mkVar(name, s)
	ex.vars = append(ex.vars, &SymVar{Name: name, T: t, Kind: "fresh"})
	return t
}

// namedVar creates (or re-creates deterministically) a harness-visible symbolic variable.
func (ex *Exec) namedVar(name string, s Sort, kind string) *Term {
	n := ex.occ[name]
	ex.occ[name] = n + 1
	full := name
	if n > 0 {
		full = fmt.Sprintf("%s#%d", name, n)
	}
	smtName := "v_" + sanitize(full)
	t := mkVar(smtName, s)
	sv := &SymVar{Name: full, T: t, Kind: kind}
	ex.vars = append(ex.vars, sv)
	ex.varByNm[full] = sv
	return t
}

func sanitize(s string) string {
	var b strings.Builder
	for _, c := range s {
		switch {
		case c >= 'a' && c <= 'z', c >= 'A' && c <= 'Z', c >= '0' && c <= '9', c == '_':
			b.WriteRune(c)
		case c == '#':
			b.WriteString("_n")
		default:
			fmt.Fprintf(&b, "_%x_", c)
		}
	}
	return b.String()
}

// assume adds c to the path condition; infeasible paths are abandoned.
func (ex *Exec) assume(c *Term) {
	if v, ok := c.BoolVal(); ok {
		if !v {
			panic(infeasibleAbort())
		}
		return
	}
	ex.sol.Assert(c)
	ex.pcN++
	ex.learnStrFact(c)
}

// strFacts: per string variable the literal it is known to equal / differ from (from asserted
// conditions of the form (= var "lit")); lets dispatch-style comparisons fold without a query.
type strFact struct {
	eq    *string
	neq   map[string]bool
}

func varEqLit(c *Term) (*Term, string, bool) {
	if c.Op == "=" && len(c.Args) == 2 && c.Args[0].Sort == SStr {
		a, b := c.Args[0], c.Args[1]
		if a.Op == "var" {
			if l, ok := b.StrVal(); ok {
				return a, l, true
			}
		}
		if b.Op == "var" {
			if l, ok := a.StrVal(); ok {
				return b, l, true
			}
		}
	}
	return nil, "", false
}

func (ex *Exec) learnStrFact(c *Term) {
	neg := false
	if c.Op == "not" {
		neg = true
		c = c.Args[0]
	}
	if c.Op == "and" && !neg {
		ex.learnStrFact(c.Args[0])
		ex.learnStrFact(c.Args[1])
		return
	}
	v, lit, ok := varEqLit(c)
	if !ok {
		return
	}
	if ex.strFacts == nil {
		ex.strFacts = map[*Term]*strFact{}
	}
	f := ex.strFacts[v]
	if f == nil {
		f = &strFact{neq: map[string]bool{}}
		ex.strFacts[v] = f
	}
	if neg {
		f.neq[lit] = true
	} else {
		l := lit
		f.eq = &l
	}
}

func (ex *Exec) knownStrFact(c *Term) (bool, bool) {
	neg := false
	if c.Op == "not" {
		neg = true
		c = c.Args[0]
	}
	v, lit, ok := varEqLit(c)
	if !ok || ex.strFacts == nil {
		return false, false
	}
	f := ex.strFacts[v]
	if f == nil {
		return false, false
	}
	if f.eq != nil {
		return (*f.eq == lit) != neg, true
	}
	if f.neq[lit] {
		return neg, true
	}
	return false, false
}

// branch decides a (possibly symbolic) condition, forking via the decision vector.
func (ex *Exec) branch(c *Term, site ssa.Instruction) bool {
	if v, ok := c.BoolVal(); ok {
		return v
	}
	if v, ok := ex.knownStrFact(c); ok {
		return v
	}
	k := ex.choose(2, func(i int) *Term {
		if i == 0 {
			return c
		}
		return tNot(c)
	}, site)
	return k == 0
}

// choose picks one of n options. guard(i) returns the condition under which option i is
// possible (nil = always). The chosen option's guard is added to the path condition.
func (ex *Exec) choose(n int, guard func(i int) *Term, site ssa.Instruction) int {
	if n == 1 {
		if g := guard(0); g != nil {
			ex.assume(g)
		}
		return 0
	}
	if ex.pos < len(ex.prefix) {
		d := ex.prefix[ex.pos]
		ex.pos++
		ex.decs = append(ex.decs, d)
		if d.N != n {
			panic(unsupported(fmt.Sprintf("decision vector out of sync at %d: arity %d vs %d at %s", ex.pos-1, d.N, n, ex.site(site))))
		}
		if g := guard(d.V); g != nil {
			ex.assume(g)
		}
		return d.V
	}
	if len(ex.decs) >= ex.eng.opts.MaxDecisions {
		panic(&unwindFail{fmt.Sprintf("decision budget (%d) exceeded at %s", ex.eng.opts.MaxDecisions, ex.site(site))})
	}
	var feas []int
	var guards = make([]*Term, n)
	for i := 0; i < n; i++ {
		g := guard(i)
		guards[i] = g
		if g == nil {
			feas = append(feas, i)
			continue
		}
		if v, ok := g.BoolVal(); ok {
			if v {
				feas = append(feas, i)
			}
			continue
		}
		if g.mentionsStrings() && len(feas) > 0 && i == n-1 && n == 2 {
			// string conditions: once the first side is known feasible the other side is queued
			// without a query (DESIGN 2.2 amendment); if it is infeasible it dies at its next decision,
			// assertion or path end
			feas = append(feas, i)
			continue
		}
		r, _, msg := ex.sol.Check(g, nil)
		switch r {
		case Sat:
			feas = append(feas, i)
		case Unknown:
			// keep (DESIGN: unknown = keep), but remember
			ex.trace = append(ex.trace, TraceEvent{Kind: "note", Label: "feasibility-unknown", Val: msg})
			feas = append(feas, i)
		}
	}
	if len(feas) == 0 {
		panic(infeasibleAbort())
	}
	base := append([]Decision{}, ex.decs...)
	for _, alt := range feas[1:] {
		p := append(append([]Decision{}, base...), Decision{N: n, V: alt})
		ex.alts = append(ex.alts, p)
	}
	d := Decision{N: n, V: feas[0], Forced: len(feas) == 1}
	ex.decs = append(ex.decs, d)
	ex.pos++
	if g := guards[d.V]; g != nil && !d.Forced {
		ex.assume(g)
	} else if g != nil && d.Forced {
		// implied by the path condition; asserting keeps later queries cheap
		ex.assume(g)
	}
	return d.V
}

// ---------------------------------------------------------------------------------------
// globals and package initialisation

func (ex *Exec) globalAddr(g *ssa.Global) *Value {
	if p, ok := ex.globals[g]; ok {
		return p
	}
	// lazily initialise the owning package
	ex.ensureInit(g.Pkg)
	if p, ok := ex.globals[g]; ok {
		return p
	}
	if g.Pkg != nil && !strings.HasPrefix(g.Pkg.Pkg.Path(), modPath) && !initOKPkgs[g.Pkg.Pkg.Path()] && !zeroOKGlobals[g.String()] {
		panic(unsupported("global " + g.String() + " of a package whose init is not interpreted"))
	}
	p := new(Value)
	*p = zero(deref(g.Type()))
	ex.globals[g] = p
	return p
}

func (ex *Exec) ensureInit(pkg *ssa.Package) {
	if pkg == nil || ex.initDone[pkg] {
		return
	}
	ex.initDone[pkg] = true
	if !strings.HasPrefix(pkg.Pkg.Path(), modPath) && !initOKPkgs[pkg.Pkg.Path()] {
		return
	}
	// allocate all globals first
	for _, m := range pkg.Members {
		if g, ok := m.(*ssa.Global); ok {
			if _, ok := ex.globals[g]; !ok {
				p := new(Value)
				*p = zero(deref(g.Type()))
				ex.globals[g] = p
			}
		}
	}
	path := pkg.Pkg.Path()
	if noInitPkgs[path] {
		return
	}
	initFn := pkg.Func("init")
	if initFn == nil || initFn.Blocks == nil {
		return
	}
	saveSched := ex.schedOn
	ex.schedOn = false
	defer func() { ex.schedOn = saveSched }()
	ex.callSSA(nil, nil, initFn, nil, nil)
}

// non-module packages whose init is interpreted (lazily, on first use of one of their globals)
var initOKPkgs = map[string]bool{"context": true, "io": true}

// globals of uninitialised packages that may be read as zero values
var zeroOKGlobals = map[string]bool{}

// packages whose init is never interpreted (their globals are intrinsic singletons or unused)
var noInitPkgs = map[string]bool{
	"runtime": true, "reflect": true, "os": true, "syscall": true, "net": true, "net/http": true,
	"time": true, "fmt": true, "encoding/json": true, "unicode": true, "crypto/rand": true,
	"sync": true, "sync/atomic": true, "log": true, "go.uber.org/zap": true, "go.uber.org/zap/zapcore": true,
	"github.com/getkin/kin-openapi/openapi3": true, "os/exec": true, "bufio": true, "bytes": true,
	"strings": true, "strconv": true, "net/url": true, "math": true, "unicode/utf8": true,
	"github.com/google/uuid": true, "github.com/yosida95/uritemplate/v3": true, "net/textproto": true,
	"mime": true, "internal/godebug": true, "regexp": true, "crypto/tls": true, "encoding/base64": true,
	"encoding/binary": true, "math/rand": true, "sort": true, "text/template": true,
}

// ---------------------------------------------------------------------------------------
// which functions may be interpreted from SSA

var denySSAPkgs = map[string]bool{
	"runtime": true, "reflect": true, "sync": true, "sync/atomic": true, "unsafe": true, "syscall": true,
	"os": true, "net": true, "time": true, "fmt": true, "encoding/json": true, "crypto/rand": true,
	"go.uber.org/zap": true, "go.uber.org/zap/zapcore": true, "os/exec": true, "bufio": true,
	"internal/poll": true, "github.com/getkin/kin-openapi/openapi3": true, "log": true,
	"internal/bytealg": true, "internal/reflectlite": true, "internal/godebug": true,
}

func fnPkgPath(fn *ssa.Function) string {
	if fn.Pkg != nil {
		return fn.Pkg.Pkg.Path()
	}
	if o := fn.Origin(); o != nil && o != fn {
		return fnPkgPath(o)
	}
	if fn.Object() != nil && fn.Object().Pkg() != nil {
		return fn.Object().Pkg().Path()
	}
	if p := fn.Parent(); p != nil {
		return fnPkgPath(p)
	}
	// wrappers ($bound, $thunk): derive from the method's receiver
	if fn.Signature.Recv() != nil {
		if n, ok := derefType(fn.Signature.Recv().Type()).(*types.Named); ok && n.Obj().Pkg() != nil {
			return n.Obj().Pkg().Path()
		}
	}
	return ""
}

func derefType(t types.Type) types.Type {
	if p, ok := t.(*types.Pointer); ok {
		return p.Elem()
	}
	return t
}

func (e *Engine) interpretable(fn *ssa.Function) bool {
	if fn.Blocks == nil {
		return false
	}
	p := fnPkgPath(fn)
	if p == "" {
		return true // synthetic wrapper
	}
	if strings.HasPrefix(p, modPath) {
		return true
	}
	if denySSAPkgs[p] {
		// allow selected simple methods
		return allowSSAFuncs[fn.String()]
	}
	return true
}

var allowSSAFuncs = map[string]bool{
	"(*fmt.wrapError).Error": true, "(*fmt.wrapError).Unwrap": true,
	"(*fmt.fmtError).Error": true,
	"(time.Duration).Seconds": true, "(time.Duration).Milliseconds": true, "(time.Duration).Nanoseconds": true,
	"(*encoding/json.SyntaxError).Error": true, "(*encoding/json.UnmarshalTypeError).Error": true,
	"(*encoding/json.UnsupportedValueError).Error": true,
	"(*encoding/json.MarshalerError).Error": true, "(*encoding/json.MarshalerError).Unwrap": true,
}

// ---------------------------------------------------------------------------------------

func sortedKeys(m map[string]bool) []string {
	var ks []string
	for k := range m {
		ks = append(ks, k)
	}
	sort.Strings(ks)
	return ks
}
