package main

// Interpreter values. Scalars are *Term; aggregates have concrete structure with symbolic
// leaves (DESIGN 2.2). Pointers are Go pointers to Value slots so aliasing is exact.

import (
	"fmt"
	"os"
	"go/types"
	"strings"

	"golang.org/x/tools/go/ssa"
)

type Value interface{}

type Struct []Value // value semantics (copied on load/store)
type Array []Value  // value semantics
type Slice struct {
	a   []Value // backing window [0:cap]; len = n
	n   int
	nil bool
}
type Tuple []Value

// ByteStr is a []byte that is (a view of) a string value; immutable.
type ByteStr struct{ s Value } // s: *Term(SStr) or *Rope

// Rope is a string made of concrete/symbolic string parts and JSON tree parts (DESIGN 2.3, 2.7).
type Rope struct{ parts []interface{} } // *Term(SStr) | *JNode

type Iface struct {
	t types.Type // nil for nil interface
	v Value
}

type Closure struct {
	fn  *ssa.Function
	env []Value
}

// BoundMethod: method value with receiver bound (from ssa bound-method wrappers we just use closures);
// IntrinsicFn is a function value for an intrinsic.
type IntrinsicFn struct{ name string }

type mapEntry struct {
	k Value
	v *Value
}
type MapObj struct {
	entries []*mapEntry
	idx     map[interface{}]int // concrete-key index
	kt, vt  types.Type
	lazy    *JNode // non-nil: backed by a lazy symbolic JSON object (DESIGN 2.8)
	id      int
}

type ChanObj struct {
	buf    []Value
	cap    int
	closed bool
	id     int
	// rendezvous support for unbuffered channels
	recvWaiting int
	// timer-like channels: readiness is symbolic
	timer   bool
	label   string
	fired   bool
	vc      VC // vector clock of last send/close (HB)
	et      types.Type
}

type MapIter struct {
	m   *MapObj
	i   int
	snap []*mapEntry
}
type StrIter struct {
	s   string
	pos int
}

// Opaque wraps engine-internal objects stored in Go values (decoders, builders, mutex state...)
type Opaque struct {
	kind string
	data interface{}
}

var nilPtr = (*Value)(nil)

func sortOfBasic(b *types.Basic) (Sort, bool) {
	switch b.Kind() {
	case types.Bool, types.UntypedBool:
		return SBool, true
	case types.Int, types.Int64, types.Uint, types.Uint64, types.Uintptr, types.UntypedInt, types.UntypedRune:
		return SBV64, true
	case types.Int32, types.Uint32:
		return SBV32, true
	case types.Int16, types.Uint16:
		return SBV16, true
	case types.Int8, types.Uint8:
		return SBV8, true
	case types.Float64, types.UntypedFloat:
		return SF64, true
	case types.Float32:
		return SF32, true
	case types.String, types.UntypedString:
		return SStr, true
	}
	return 0, false
}

func isSigned(t types.Type) bool {
	if b, ok := t.Underlying().(*types.Basic); ok {
		return b.Info()&types.IsUnsigned == 0 && b.Info()&types.IsInteger != 0
	}
	return false
}
func isInteger(t types.Type) bool {
	if b, ok := t.Underlying().(*types.Basic); ok {
		return b.Info()&types.IsInteger != 0
	}
	return false
}
func isFloat(t types.Type) bool {
	if b, ok := t.Underlying().(*types.Basic); ok {
		return b.Info()&types.IsFloat != 0
	}
	return false
}
func isString(t types.Type) bool {
	if b, ok := t.Underlying().(*types.Basic); ok {
		return b.Info()&types.IsString != 0
	}
	return false
}
func isByteSlice(t types.Type) bool {
	if s, ok := t.Underlying().(*types.Slice); ok {
		if b, ok := s.Elem().Underlying().(*types.Basic); ok {
			return b.Kind() == types.Uint8
		}
	}
	return false
}

func zero(t types.Type) Value {
	switch t := t.(type) {
	case *types.Basic:
		if t.Kind() == types.UnsafePointer || t.Kind() == types.UntypedNil {
			return nilPtr
		}
		s, ok := sortOfBasic(t)
		if !ok {
			panic(unsupported("zero of basic " + t.String()))
		}
		switch s {
		case SBool:
			return tFalse
		case SF64:
			return mkF64(0)
		case SF32:
			return mkF32(0)
		case SStr:
			return mkStr("")
		}
		return mkBV(s, 0)
	case *types.Pointer:
		return nilPtr
	case *types.Struct:
		s := make(Struct, t.NumFields())
		for i := range s {
			s[i] = zero(t.Field(i).Type())
		}
		return s
	case *types.Array:
		a := make(Array, t.Len())
		for i := range a {
			a[i] = zero(t.Elem())
		}
		return a
	case *types.Slice:
		return Slice{nil: true}
	case *types.Map:
		return (*MapObj)(nil)
	case *types.Chan:
		return (*ChanObj)(nil)
	case *types.Signature:
		return (*Closure)(nil)
	case *types.Interface:
		return Iface{}
	case *types.Named:
		return zero(t.Underlying())
	case *types.Alias:
		return zero(types.Unalias(t))
	case *types.Tuple:
		tu := make(Tuple, t.Len())
		for i := range tu {
			tu[i] = zero(t.At(i).Type())
		}
		return tu
	case *types.TypeParam:
		panic(unsupported("zero of type param"))
	}
	panic(unsupported(fmt.Sprintf("zero of %T", t)))
}

func copyVal(v Value) Value {
	switch v := v.(type) {
	case Struct:
		c := make(Struct, len(v))
		for i, f := range v {
			c[i] = copyVal(f)
		}
		return c
	case Array:
		c := make(Array, len(v))
		for i, f := range v {
			c[i] = copyVal(f)
		}
		return c
	}
	return v
}

func isNilFunc(v Value) bool {
	switch f := v.(type) {
	case *Closure:
		return f == nil
	case *ssa.Function:
		return f == nil
	case nil:
		return true
	}
	return false
}

// ---- engine control-flow signals (Go panics) ----

type unsupportedErr struct{ msg string }

func unsupported(msg string) *unsupportedErr { return &unsupportedErr{msg} }
func (u *unsupportedErr) Error() string      { return "unsupported: " + u.msg }

type goPanic struct {
	val   Value  // the Go value passed to panic()
	descr string // human-readable
	site  string
	rt    bool // runtime error
}

type pathAbort struct{ kind string } // "infeasible", "kill", "stop"

// ---- debugging / printing ----

func valString(v Value) string {
	switch v := v.(type) {
	case nil:
		return "<nil>"
	case *Term:
		if v.IsConst() {
			switch v.Sort {
			case SStr:
				return fmt.Sprintf("%q", v.K.(string))
			default:
				return fmt.Sprint(v.K)
			}
		}
		s := v.SMT()
		if len(s) > 80 {
			s = s[:80] + "..."
		}
		return s
	case Struct:
		var b strings.Builder
		b.WriteString("{")
		for i, f := range v {
			if i > 0 {
				b.WriteString(", ")
			}
			b.WriteString(valString(f))
		}
		b.WriteString("}")
		return b.String()
	case Array:
		return fmt.Sprintf("[%d]array", len(v))
	case Slice:
		if v.nil {
			return "[]nil"
		}
		return fmt.Sprintf("slice(len=%d)", v.n)
	case *Value:
		if v == nil {
			return "nilptr"
		}
		return fmt.Sprintf("&%p", v)
	case Iface:
		if v.t == nil {
			return "nil-iface"
		}
		return fmt.Sprintf("iface(%s: %s)", v.t, valString(v.v))
	case *Closure:
		if v == nil {
			return "nil-func"
		}
		return "closure " + v.fn.String()
	case *ssa.Function:
		return "func " + v.String()
	case *MapObj:
		if v == nil {
			return "nil-map"
		}
		return fmt.Sprintf("map(len=%d)", len(v.entries))
	case *ChanObj:
		if v == nil {
			return "nil-chan"
		}
		return fmt.Sprintf("chan#%d(len=%d)", v.id, len(v.buf))
	case *Rope:
		return "rope"
	case ByteStr:
		return "bytes(" + valString(v.s) + ")"
	case Tuple:
		var parts []string
		for _, x := range v {
			parts = append(parts, valString(x))
		}
		return "(" + strings.Join(parts, ", ") + ")"
	}
	return fmt.Sprintf("%T", v)
}

func infeasibleAbort() *pathAbort {
	if os.Getenv("GOSYM_DEBUG") == "2" {
		fmt.Fprintf(os.Stderr, "DEBUG infeasible at:\n%s\n", shortStack())
	}
	return &pathAbort{"infeasible"}
}
