package main

import (
	"fmt"
	"go/types"
	"os"
	"path/filepath"
	"sort"
	"strings"

	"golang.org/x/tools/go/packages"
	"golang.org/x/tools/go/ssa"
	"golang.org/x/tools/go/ssa/ssautil"
)

// repoDir is the tree under test. GOSYM_REPO points the engine at a scratch worktree instead (used only
// by tools/try_seed.sh to try a seeded change without touching /repo while other checks are running; the
// registered commands never set it). GOSYM_EVIDENCE likewise redirects the evidence file.
var repoDir = func() string {
	if d := os.Getenv("GOSYM_REPO"); d != "" {
		return d
	}
	return "/repo"
}()
const modPath = "trpc.group/trpc-go/trpc-mcp-go"

type Program struct {
	prog  *ssa.Program
	pkgs  map[string]*ssa.Package // by import path
	fset  interface{}
	sizes types.Sizes
}

// loadProgram builds SSA for /repo (all packages given by patterns) with overlay files injected.
func loadProgram(overlay map[string][]byte, patterns ...string) (*Program, error) {
	cfg := &packages.Config{
		Mode:    packages.LoadAllSyntax,
		Dir:     repoDir,
		Overlay: overlay,
		Env:     append(os.Environ(), "GOFLAGS=-mod=mod", "GOPROXY=off", "GOSUMDB=off", "GOTOOLCHAIN=local"),
	}
	if len(patterns) == 0 {
		patterns = []string{"."}
	}
	initial, err := packages.Load(cfg, patterns...)
	if err != nil {
		return nil, err
	}
	nerr := 0
	packages.Visit(initial, nil, func(p *packages.Package) {
		for _, e := range p.Errors {
			if strings.HasPrefix(p.PkgPath, modPath) {
				fmt.Fprintf(os.Stderr, "load error: %s: %v\n", p.PkgPath, e)
				nerr++
			}
		}
	})
	if nerr > 0 {
		return nil, fmt.Errorf("%d load errors in module packages", nerr)
	}
	prog, _ := ssautil.AllPackages(initial, ssa.InstantiateGenerics)
	prog.Build()
	P := &Program{prog: prog, pkgs: map[string]*ssa.Package{}, sizes: types.SizesFor("gc", "amd64")}
	for _, p := range prog.AllPackages() {
		P.pkgs[p.Pkg.Path()] = p
	}
	return P, nil
}

func inModule(fn *ssa.Function) bool {
	if fn == nil {
		return false
	}
	if fn.Pkg != nil {
		return strings.HasPrefix(fn.Pkg.Pkg.Path(), modPath)
	}
	// synthetic wrappers / instantiations: look at origin or receiver
	if o := fn.Origin(); o != nil && o != fn {
		return inModule(o)
	}
	if fn.Object() != nil && fn.Object().Pkg() != nil {
		return strings.HasPrefix(fn.Object().Pkg().Path(), modPath)
	}
	if p := fn.Parent(); p != nil {
		return inModule(p)
	}
	return false
}

// cmdExternals lists callees outside the module statically referenced from module functions.
func cmdExternals() {
	P, err := loadProgram(nil, ".")
	if err != nil {
		fmt.Fprintln(os.Stderr, err)
		os.Exit(2)
	}
	counts := map[string]int{}
	kinds := map[string]int{}
	for fn := range ssautil.AllFunctions(P.prog) {
		if !inModule(fn) || fn.Blocks == nil {
			continue
		}
		if fn.Pkg != nil && !strings.HasPrefix(fn.Pkg.Pkg.Path(), modPath) {
			continue
		}
		pos := P.prog.Fset.Position(fn.Pos())
		if strings.HasSuffix(pos.Filename, "_test.go") {
			continue
		}
		for _, b := range fn.Blocks {
			for _, in := range b.Instrs {
				kinds[fmt.Sprintf("%T", in)]++
				var cc *ssa.CallCommon
				switch x := in.(type) {
				case *ssa.Call:
					cc = &x.Call
				case *ssa.Go:
					cc = &x.Call
				case *ssa.Defer:
					cc = &x.Call
				}
				if cc == nil {
					continue
				}
				if cc.Method != nil {
					if cc.Method.Pkg() == nil || !strings.HasPrefix(cc.Method.Pkg().Path(), modPath) {
						counts["invoke "+cc.Method.FullName()]++
					}
					continue
				}
				if callee := cc.StaticCallee(); callee != nil && !inModule(callee) {
					counts[callee.String()]++
				}
			}
		}
	}
	var keys []string
	for k := range counts {
		keys = append(keys, k)
	}
	sort.Strings(keys)
	for _, k := range keys {
		fmt.Printf("%4d %s\n", counts[k], k)
	}
	fmt.Println("--- instruction kinds")
	for k, v := range kinds {
		fmt.Printf("%6d %s\n", v, k)
	}
	_ = filepath.Join
}
