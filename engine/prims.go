package main

// Harness primitives (DESIGN 2.5): v* functions intercepted by the engine.

import (
	"fmt"
	"go/types"

	"golang.org/x/tools/go/ssa"
)

var prims = map[string]intrinsic{}

func constStr(v Value, what string) string {
	s, ok := strArg(v).StrVal()
	if !ok {
		panic(unsupported(what + " must be a constant string"))
	}
	return s
}

func init() {
	prims["vInt"] = func(ex *Exec, fr *Frame, site ssa.Instruction, a []Value) Value {
		return ex.namedVar(constStr(a[0], "name"), SBV64, "int")
	}
	prims["vInt64"] = prims["vInt"]
	prims["vUint8"] = func(ex *Exec, fr *Frame, site ssa.Instruction, a []Value) Value {
		return ex.namedVar(constStr(a[0], "name"), SBV8, "uint8")
	}
	prims["vBool"] = func(ex *Exec, fr *Frame, site ssa.Instruction, a []Value) Value {
		return ex.namedVar(constStr(a[0], "name"), SBool, "bool")
	}
	prims["vFloat64"] = func(ex *Exec, fr *Frame, site ssa.Instruction, a []Value) Value {
		return ex.namedVar(constStr(a[0], "name"), SF64, "float64")
	}
	prims["vString"] = func(ex *Exec, fr *Frame, site ssa.Instruction, a []Value) Value {
		s := ex.namedVar(constStr(a[0], "name"), SStr, "string")
		max := ex.concreteInt(a[1], "max length", site)
		ex.assume(printable(s, max))
		return s
	}
	// vStringLower: printable ASCII without upper-case letters
	prims["vStringLower"] = func(ex *Exec, fr *Frame, site ssa.Instruction, a []Value) Value {
		s := ex.namedVar(constStr(a[0], "name"), SStr, "string")
		s.Lower = true
		max := ex.concreteInt(a[1], "max length", site)
		ex.assume(tAnd(newTerm("in_re_lower", SBool, s), tIntCmp("<=", tStrLen(s), mkInt(int64(max)))))
		return s
	}
	// vBytesStr: arbitrary bytes 0..255 (as a string), bounded length
	prims["vRawString"] = func(ex *Exec, fr *Frame, site ssa.Instruction, a []Value) Value {
		s := ex.namedVar(constStr(a[0], "name"), SStr, "rawstring")
		max := ex.concreteInt(a[1], "max length", site)
		ex.assume(tAnd(newTerm("in_re_bytes", SBool, s), tIntCmp("<=", tStrLen(s), mkInt(int64(max)))))
		return s
	}
	prims["vIntRange"] = func(ex *Exec, fr *Frame, site ssa.Instruction, a []Value) Value {
		x := ex.namedVar(constStr(a[0], "name"), SInt, "intrange")
		lo := int64(ex.concreteInt(a[1], "lo", site))
		hi := int64(ex.concreteInt(a[2], "hi", site))
		ex.assume(tAnd(tIntCmp(">=", x, mkInt(lo)), tIntCmp("<=", x, mkInt(hi))))
		x.HasRng, x.Lo, x.Hi = true, lo, hi
		return x
	}
	prims["vInt64Range"] = prims["vIntRange"]
	prims["vChoice"] = func(ex *Exec, fr *Frame, site ssa.Instruction, a []Value) Value {
		name := constStr(a[0], "name")
		n := ex.concreteInt(a[1], "n", site)
		k := ex.choose(n, func(int) *Term { return nil }, site)
		// recorded as a named concrete input for the native replay
		ex.choices = append(ex.choices, namedChoice{ex.occName(name), k})
		return bvInt(int64(k))
	}
	prims["vJSON"] = func(ex *Exec, fr *Frame, site ssa.Instruction, a []Value) Value {
		name := constStr(a[0], "name")
		depth := ex.concreteInt(a[1], "depth", site)
		n := ex.newLazy(name, depth)
		ex.jsonInputs = append(ex.jsonInputs, jsonInput{ex.occName(name), n})
		return ByteStr{s: &Rope{parts: []interface{}{n}}}
	}
	prims["vJSONInvalid"] = func(ex *Exec, fr *Frame, site ssa.Instruction, a []Value) Value {
		return ByteStr{s: &Rope{parts: []interface{}{&JNode{kind: JInvalid}}}}
	}
	prims["vAssume"] = func(ex *Exec, fr *Frame, site ssa.Instruction, a []Value) Value {
		ex.nAssumes++
		c := a[0].(*Term)
		if v, ok := c.BoolVal(); ok {
			if !v {
				panic(infeasibleAbort())
			}
			return nil
		}
		r, _, _ := ex.sol.Check(c, nil)
		if r == Unsat {
			panic(infeasibleAbort())
		}
		ex.assume(c)
		return nil
	}
	prims["vAssert"] = func(ex *Exec, fr *Frame, site ssa.Instruction, a []Value) Value {
		ex.doAssert(constStr(a[0], "label"), a[1].(*Term), site)
		return nil
	}
	prims["vReach"] = func(ex *Exec, fr *Frame, site ssa.Instruction, a []Value) Value {
		l := constStr(a[0], "label")
		ex.reached[l] = true
		ex.trace = append(ex.trace, TraceEvent{Kind: "reach", Label: l})
		return nil
	}
	prims["vNoteStr"] = func(ex *Exec, fr *Frame, site ssa.Instruction, a []Value) Value {
		ex.notes = append(ex.notes, noteRec{len(ex.trace), a[1]})
		ex.trace = append(ex.trace, TraceEvent{Kind: "note", Label: constStr(a[0], "label")})
		return nil
	}
	prims["vNoteInt"] = prims["vNoteStr"]
	prims["vNoteBool"] = prims["vNoteStr"]
	prims["vSame"] = func(ex *Exec, fr *Frame, site ssa.Instruction, a []Value) Value {
		return tSame(a[0].(*Term), a[1].(*Term))
	}
	prims["vSched"] = func(ex *Exec, fr *Frame, site ssa.Instruction, a []Value) Value {
		on, _ := a[0].(*Term).BoolVal()
		ex.schedOn = on
		if on {
			ex.everSched = true
		}
		ex.maxSwitch = ex.concreteInt(a[1], "max switches", site)
		ex.switches = 0 // the budget counts preemptions (voluntary switches at sync points) from here on
		return nil
	}
	prims["vRace"] = func(ex *Exec, fr *Frame, site ssa.Instruction, a []Value) Value {
		on, _ := a[0].(*Term).BoolVal()
		ex.raceOn = on
		return nil
	}
	prims["vQuiesce"] = func(ex *Exec, fr *Frame, site ssa.Instruction, a []Value) Value {
		ex.quiesce(site)
		return nil
	}
	prims["vYield"] = func(ex *Exec, fr *Frame, site ssa.Instruction, a []Value) Value {
		save := ex.schedOn
		ex.schedOn = true
		ex.syncPoint(site)
		ex.schedOn = save
		return nil
	}
	prims["vEnvPoint"] = func(ex *Exec, fr *Frame, site ssa.Instruction, a []Value) Value {
		// let an environment event (timer, deadline) happen here, or not
		var evs []*envEvent
		for _, e := range ex.envEvents() {
			if e.armed && (e.live == nil || e.live()) {
				evs = append(evs, e)
			}
		}
		if len(evs) == 0 {
			return nil
		}
		k := ex.choose(len(evs)+1, func(int) *Term { return nil }, site)
		if k > 0 {
			evs[k-1].fire()
			ex.trace = append(ex.trace, TraceEvent{Kind: "env", Label: evs[k-1].label})
		}
		return nil
	}
	prims["vChanFill"] = func(ex *Exec, fr *Frame, site ssa.Instruction, a []Value) Value {
		c := a[0].(Iface).v.(*ChanObj)
		n := ex.concreteInt(a[1], "fill", site)
		for i := 0; i < n && len(c.buf) < c.cap; i++ {
			c.buf = append(c.buf, zero(c.et))
		}
		return nil
	}
	prims["vJSONStrMax"] = func(ex *Exec, fr *Frame, site ssa.Instruction, a []Value) Value {
		ex.hctx["jsonStrMax"] = ex.concreteInt(a[0], "max", site)
		return nil
	}
	prims["vJSONNoExtra"] = func(ex *Exec, fr *Frame, site ssa.Instruction, a []Value) Value {
		on, _ := a[0].(*Term).BoolVal()
		ex.hctx["jsonNoExtra"] = on
		return nil
	}
	prims["vUsedCryptoRand"] = func(ex *Exec, fr *Frame, site ssa.Instruction, a []Value) Value {
		return mkBool(ex.hctx["usedCryptoRand"] == true)
	}
	prims["vAnd"] = func(ex *Exec, fr *Frame, site ssa.Instruction, a []Value) Value {
		return tAnd(a[0].(*Term), a[1].(*Term))
	}
	prims["vOr"] = func(ex *Exec, fr *Frame, site ssa.Instruction, a []Value) Value {
		return tOr(a[0].(*Term), a[1].(*Term))
	}
	prims["vImplies"] = func(ex *Exec, fr *Frame, site ssa.Instruction, a []Value) Value {
		return tImplies(a[0].(*Term), a[1].(*Term))
	}
	prims["vRandConcrete"] = func(ex *Exec, fr *Frame, site ssa.Instruction, a []Value) Value {
		on, _ := a[0].(*Term).BoolVal()
		ex.hctx["randConcrete"] = on
		return nil
	}
	prims["vTickers"] = func(ex *Exec, fr *Frame, site ssa.Instruction, a []Value) Value {
		on, _ := a[0].(*Term).BoolVal()
		ex.hctx["tickersOn"] = on
		return nil
	}
	prims["vTimersEager"] = func(ex *Exec, fr *Frame, site ssa.Instruction, a []Value) Value {
		on, _ := a[0].(*Term).BoolVal()
		ex.hctx["eagerTimers"] = on
		return nil
	}
	prims["vSameJSON"] = func(ex *Exec, fr *Frame, site ssa.Instruction, a []Value) Value {
		return ex.jsonSame(ex.nodeOfIface(fr, site, a[0]), ex.nodeOfIface(fr, site, a[1]), site)
	}
	prims["vRandByte"] = func(ex *Exec, fr *Frame, site ssa.Instruction, a []Value) Value {
		i := ex.concreteInt(a[0], "index", site)
		k := 0
		for _, v := range ex.vars {
			if v.Kind == "rand" {
				if k == i {
					return v.T
				}
				k++
			}
		}
		return mkBV(SBV8, 0)
	}
	prims["vNativeSkip"] = func(ex *Exec, fr *Frame, site ssa.Instruction, a []Value) Value {
		// the native run cannot observe what this harness observes (e.g. arguments of time.After)
		ex.nondetEnv++
		return nil
	}
	prims["vTier"] = func(ex *Exec, fr *Frame, site ssa.Instruction, a []Value) Value {
		if gTier == "thorough" {
			return bvInt(1)
		}
		return bvInt(0)
	}
	// vProcStart / vProcExit: a child process the harness controls (natively a real /bin/sh that exits with
	// the code written to its stdin; in the engine an *exec.Cmd whose Wait blocks until vProcExit)
	prims["vProcStart"] = func(ex *Exec, fr *Frame, site ssa.Instruction, a []Value) Value {
		t := ex.eng.lookupType("os/exec", "Cmd")
		p := newPtr(zero(t))
		engState[procState](ex, "proc", p)
		return p
	}
	prims["vProcExit"] = func(ex *Exec, fr *Frame, site ssa.Instruction, a []Value) Value {
		p := a[0].(*Value)
		st := engState[procState](ex, "proc", p)
		st.exited = true
		st.code = ex.concreteInt(a[1], "exit code", site)
		return nil
	}
	prims["vGoroutines"] = func(ex *Exec, fr *Frame, site ssa.Instruction, a []Value) Value {
		// goroutines of the code under test that have not finished (the calling goroutine excluded)
		n := 0
		for _, t := range ex.threads {
			if t != ex.cur && !t.done && !t.isMain {
				n++
			}
		}
		return bvInt(int64(n))
	}
	prims["vEnvCalls"] = func(ex *Exec, fr *Frame, site ssa.Instruction, a []Value) Value {
		// number of time.After / time.Sleep calls seen so far
		l, _ := ex.hctx["envcalls"].([]Value)
		return bvInt(int64(len(l)))
	}
	prims["vEnvCallArg"] = func(ex *Exec, fr *Frame, site ssa.Instruction, a []Value) Value {
		l, _ := ex.hctx["envcalls"].([]Value)
		i := ex.concreteInt(a[0], "index", site)
		if i < 0 || i >= len(l) {
			return bvInt(-1)
		}
		return l[i]
	}
}

type namedChoice struct {
	Name string
	V    int
}
type jsonInput struct {
	Name string
	N    *JNode
}
type noteRec struct {
	idx int
	v   Value
}

func (ex *Exec) occName(name string) string {
	n := ex.occ["c:"+name]
	ex.occ["c:"+name] = n + 1
	if n > 0 {
		return fmt.Sprintf("%s#%d", name, n)
	}
	return name
}

// doAssert discharges one obligation: path ∧ ¬cond must be unsat.
func (ex *Exec) doAssert(label string, cond *Term, site ssa.Instruction) {
	rec := &AssertRec{Label: label, Harness: ex.harness, Site: ex.site(site), Cond: cond}
	ex.asserts = append(ex.asserts, rec)
	if v, ok := cond.BoolVal(); ok {
		if v {
			rec.Result = Unsat
			ex.trace = append(ex.trace, TraceEvent{Kind: "assert", Label: label, OK: true})
			return
		}
		// concretely false on this path: violation for every value on the path
		rec.Result = Sat
		ex.classifyViolation(rec, tTrue)
		ex.trace = append(ex.trace, TraceEvent{Kind: "assert", Label: label, OK: false})
		return
	}
	neg := tNot(cond)
	r, _, msg := ex.sol.Check(neg, nil)
	switch r {
	case Unsat:
		rec.Result = Unsat
		if x := ex.sol.CrossCheck(neg); x == Sat {
			rec.Result = Unknown
			ex.engineErrors = append(ex.engineErrors, "solver disagreement on assert "+label)
		}
		ex.trace = append(ex.trace, TraceEvent{Kind: "assert", Label: label, OK: true})
	case Sat:
		rec.Result = Sat
		ex.classifyViolation(rec, neg)
		ex.violated = append(ex.violated, rec)
		// the path continues on the holding side when there is one (so later obligations are
		// independent and the path's own witness satisfies the claim); otherwise it stops here
		if rr, _, _ := ex.sol.Check(cond, nil); rr == Unsat {
			ex.trace = append(ex.trace, TraceEvent{Kind: "assert", Label: label, OK: false})
			panic(&pathAbort{"stop"})
		}
		ex.trace = append(ex.trace, TraceEvent{Kind: "assert", Label: label, OK: true})
		ex.assume(cond)
		return
	default:
		// cvc5 gave up: a definite unsat from z3 on the same script decides the obligation
		if x := ex.sol.CrossCheck(neg); x == Unsat {
			rec.Result = Unsat
			r = Unsat
			ex.trace = append(ex.trace, TraceEvent{Kind: "assert", Label: label, OK: true})
			break
		}
		rec.Result = Unknown
		ex.unknowns = append(ex.unknowns, label+": "+msg)
		ex.trace = append(ex.trace, TraceEvent{Kind: "assert", Label: label, OK: true, Val: "unknown"})
	}
	if r != Unsat {
		// continue assuming the condition (if possible)
		rr, _, _ := ex.sol.Check(cond, nil)
		if rr == Unsat {
			panic(&pathAbort{"stop"})
		}
		ex.assume(cond)
	}
}

var _ = types.Typ

type procState struct {
	exited bool
	code   int
	waited bool
}

func init() {
	reg("(*os/exec.Cmd).Wait", func(ex *Exec, fr *Frame, site ssa.Instruction, a []Value) Value {
		p := nilCheck(fr, site, a[0])
		m, _ := ex.hctx["proc"].(map[*Value]*procState)
		st := m[p]
		if st == nil {
			// a Cmd that was never started: exec: not started
			return ex.makeError(mkStr("exec: not started"))
		}
		if st.waited {
			return ex.makeError(mkStr("exec: Wait was already called"))
		}
		ex.blockUntil(func() bool { return st.exited }, "process exit", site)
		st.waited = true
		if st.code == 0 {
			return Iface{}
		}
		return ex.makeError(mkStr(fmt.Sprintf("exit status %d", st.code)))
	})
}
