package main

import (
	"fmt"
	"os"
)

func main() {
	if len(os.Args) < 2 {
		fmt.Fprintln(os.Stderr, "usage: gosym check|externals|replay ...")
		os.Exit(2)
	}
	switch os.Args[1] {
	case "externals":
		cmdExternals()
	case "check":
		os.Exit(cmdCheck(os.Args[2:]))
	default:
		fmt.Fprintln(os.Stderr, "unknown command")
		os.Exit(2)
	}
}
