package main

// Goroutines as coroutines, channels, select, environment events, vector clocks (DESIGN 2.10).

import (
	"fmt"
	"os"
	"strings"
	"go/types"

	"golang.org/x/tools/go/ssa"
)

type VC []int

func (a VC) join(b VC) VC {
	n := len(a)
	if len(b) > n {
		n = len(b)
	}
	r := make(VC, n)
	for i := range r {
		if i < len(a) {
			r[i] = a[i]
		}
		if i < len(b) && b[i] > r[i] {
			r[i] = b[i]
		}
	}
	return r
}
func (a VC) get(i int) int {
	if i < len(a) {
		return a[i]
	}
	return 0
}
func (a VC) clone() VC { return append(VC{}, a...) }

type Thread struct {
	id      int
	ex      *Exec
	wake    chan struct{}
	done    bool
	ready   func() bool // nil = runnable
	what    string
	vc      VC
	started bool
	fn      Value
	args    []Value
	site    ssa.Instruction
	exited  chan struct{}
	isMain  bool
}

type envEvent struct {
	label string
	fire  func()
	armed bool
	fires int
	live  func() bool
	// virtual deadline (ns) for timers with a concrete duration: when every goroutine is blocked the
	// earliest deadline fires first (generous harness timeouts never overtake short library waits)
	deadline    int64
	hasDeadline bool
}

func (t *Thread) tick() {
	for len(t.vc) <= t.id {
		t.vc = append(t.vc, 0)
	}
	t.vc[t.id]++
}

func (ex *Exec) newThread() *Thread {
	t := &Thread{id: len(ex.threads), ex: ex, wake: make(chan struct{}, 1), exited: make(chan struct{})}
	ex.threads = append(ex.threads, t)
	return t
}

func (ex *Exec) spawn(fr *Frame, site ssa.Instruction, fn Value, args []Value) {
	if len(ex.threads) >= 48 {
		panic(&unwindFail{"thread bound (48) exceeded at " + ex.site(site)})
	}
	t := ex.newThread()
	t.fn, t.args, t.site = fn, args, site
	t.vc = ex.cur.vc.clone()
	t.tick()
	ex.cur.tick()
	go t.body()
	ex.syncPoint(site)
}

func (t *Thread) body() {
	ex := t.ex
	<-t.wake
	defer close(t.exited)
	if ex.killing {
		t.done = true
		return
	}
	t.started = true
	sig := t.protect(func() { ex.call(nil, t.site, t.fn, t.args, false) })
	t.done = true
	var next *Thread
	if sig == nil {
		sig = t.protect(func() {
			next = ex.pickNext(nil, true)
		})
	}
	if sig != nil {
		if pa, ok := sig.(*pathAbort); ok && pa.kind == "kill" {
			return
		}
		if gp, ok := sig.(*goPanic); ok {
			// uncaught panic in a goroutine: the process would crash
			sig = &uncaughtPanic{gp: gp, thread: t.id}
		}
		if ex.pending == nil {
			ex.pending = sig
		}
		ex.killing = true
		ex.cur = ex.threads[0]
		ex.threads[0].wake <- struct{}{}
		return
	}
	if next == nil {
		// nobody runnable: wake main so it can detect the deadlock / finish
		next = ex.threads[0]
	}
	if schedDebug {
		fmt.Fprintf(os.Stderr, "SCHED t%d exits -> t%d\n", t.id, next.id)
	}
	ex.cur = next
	next.wake <- struct{}{}
}

func (t *Thread) protect(f func()) (sig interface{}) {
	defer func() {
		if r := recover(); r != nil {
			switch r.(type) {
			case *pathAbort, *unsupportedErr, *unwindFail, *goPanic, *uncaughtPanic, *deadlockErr:
				sig = r
			default:
				// a Go runtime error inside the engine: keep the stack of this goroutine
				sig = unsupported(fmt.Sprintf("engine panic in goroutine: %v\n%s", r, shortStack()))
			}
		}
	}()
	f()
	return nil
}

type uncaughtPanic struct {
	gp     *goPanic
	thread int
}

// switchTo passes the baton from the current thread to next and waits to get it back.
func (ex *Exec) switchTo(next *Thread) {
	cur := ex.cur
	if next == cur {
		return
	}
	if schedDebug {
		fmt.Fprintf(os.Stderr, "SCHED switch t%d -> t%d (t%d waits for %q)\n", cur.id, next.id, cur.id, cur.what)
	}
	ex.cur = next
	next.wake <- struct{}{}
	<-cur.wake
	if schedDebug {
		fmt.Fprintf(os.Stderr, "SCHED t%d resumed (ex.cur=t%d)\n", cur.id, ex.cur.id)
	}
	if cur.isMain && ex.pending != nil {
		p := ex.pending
		ex.pending = nil
		panic(p)
	}
	if ex.killing {
		panic(&pathAbort{"kill"})
	}
}

func (t *Thread) runnable() bool {
	if t.done {
		return false
	}
	return t.ready == nil || t.ready()
}

// pickNext chooses the next thread to run among runnable ones (excluding `except` unless it is runnable).
// When mustPick is true and several candidates / environment events exist, a decision is made.
func (ex *Exec) pickNext(except *Thread, blocking bool) *Thread {
	for {
		var cands []*Thread
		for _, t := range ex.threads {
			if t != except && t.runnable() {
				cands = append(cands, t)
			}
		}
		var evs []*envEvent
		for _, e := range ex.envEvents() {
			if e.armed && (e.live == nil || e.live()) {
				evs = append(evs, e)
			}
		}
		nReg := len(cands)
		if nReg > 1 && !ex.schedOn {
			cands = cands[:1]
			nReg = 1
		}
		if nReg > 1 && ex.switches >= ex.maxSwitch {
			cands = cands[:1]
			nReg = 1
		}
		if ex.hctx["eagerTimers"] != true && len(evs) > 1 {
			// keep the events without a deadline and, among timed ones, only the earliest
			var min *envEvent
			for _, e := range evs {
				if e.hasDeadline && (min == nil || e.deadline < min.deadline) {
					min = e
				}
			}
			var kept []*envEvent
			for _, e := range evs {
				if !e.hasDeadline || e == min {
					kept = append(kept, e)
				}
			}
			evs = kept
		}
		if nReg > 0 && ex.hctx["eagerTimers"] != true {
			// time passes only when every goroutine is blocked (harness timeouts are generous);
			// vTimersEager(true) lets timers race with runnable goroutines
			evs = nil
		}
		n := nReg + len(evs)
		if !blocking {
			// voluntary yield: environment events are not offered
			n = nReg
		}
		if n == 0 {
			return nil
		}
		k := 0
		if n > 1 {
			ex.nondetEnv++
			k = ex.choose(n, func(int) *Term { return nil }, nil)
		}
		if k < nReg {
			return cands[k]
		}
		e := evs[k-nReg]
		if e.hasDeadline && e.deadline > ex.vtime {
			ex.vtime = e.deadline
		}
		e.fire()
		ex.trace = append(ex.trace, TraceEvent{Kind: "env", Label: e.label})
		// after firing, somebody (maybe `except`) may have become runnable
		if except != nil && except.runnable() {
			return except
		}
	}
}

func (ex *Exec) envEvents() []*envEvent {
	l, _ := ex.hctx["envEvents"].([]*envEvent)
	return l
}
func (ex *Exec) addEnvEvent(e *envEvent) {
	l, _ := ex.hctx["envEvents"].([]*envEvent)
	ex.hctx["envEvents"] = append(l, e)
}

type deadlockErr struct{ what string }

var schedDebug = os.Getenv("GOSYM_DEBUG") == "3"

// blockUntil blocks the current thread until ready() holds.
func (ex *Exec) blockUntil(ready func() bool, what string, site ssa.Instruction) {
	cur := ex.cur
	// nested use (an environment event firing interpreted code on this goroutine) must not
	// clobber the outer wait's readiness predicate
	prevReady, prevWhat := cur.ready, cur.what
	defer func() { cur.ready, cur.what = prevReady, prevWhat }()
	for !ready() {
		cur.ready = ready
		cur.what = what
		next := ex.pickNext(cur, true)
		if schedDebug {
			nid := -1
			if next != nil {
				nid = next.id
			}
			fmt.Fprintf(os.Stderr, "SCHED t%d blocks on %q at %s; next=t%d\n", cur.id, what, ex.site(site), nid)
		}
		if next == nil {
			if ready() {
				break
			}
			cur.ready = nil
			var desc string
			for _, t := range ex.threads {
				if !t.done {
					desc += fmt.Sprintf(" [t%d: %s]", t.id, t.what)
				}
			}
			panic(&deadlockErr{"all goroutines blocked:" + desc + " at " + ex.site(site)})
		}
		if next == cur {
			break
		}
		ex.switchTo(next)
	}
}

// syncPoint is a potential preemption point (only when schedule exploration is on).
func (ex *Exec) syncPoint(site ssa.Instruction) {
	key := ex.siteKey(site)
	ordKey := ""
	if key != "" {
		if ex.spCount == nil {
			ex.spCount = map[string]int{}
		}
		ex.spCount[key]++
		if ex.everSched && len(ex.order) < 20000 && instrumentedSites()[key] {
			ordKey = fmt.Sprintf("%s#%d", key, ex.spCount[key])
		}
	}
	// the operation is recorded when it is about to execute: for a preempted one, when its goroutine resumes
	record := func() {
		if ordKey != "" {
			ex.order = append(ex.order, ordKey)
		}
	}
	if !ex.schedOn || ex.switches >= ex.maxSwitch {
		record()
		return
	}
	var cands []*Thread
	cands = append(cands, ex.cur)
	for _, t := range ex.threads {
		if t != ex.cur && t.runnable() {
			cands = append(cands, t)
		}
	}
	if len(cands) == 1 {
		record()
		return
	}
	ex.nondetEnv++
	k := ex.choose(len(cands), func(int) *Term { return nil }, site)
	if k != 0 {
		ex.switches++
		if key != "" {
			// the current goroutine is preempted right before this synchronisation operation: recorded so
			// that the native confirmation run can hold the goroutine at the same place (check.go)
			ex.preempts = append(ex.preempts, Preempt{Site: key, Occ: ex.spCount[key]})
		}
		ex.switchTo(cands[k])
	}
	record()
}

// Preempt: the Occ-th execution (counted over all goroutines) of the synchronisation operation at
// Site (file.go:line of a /repo source file) was preempted.
type Preempt struct {
	Site string `json:"site"`
	Occ  int    `json:"occ"`
}

func (ex *Exec) siteKey(in ssa.Instruction) string {
	if in == nil {
		return ""
	}
	p := ex.eng.P.prog.Fset.Position(in.Pos())
	if !p.IsValid() || !strings.HasPrefix(p.Filename, repoDir+"/") || strings.Contains(p.Filename, "zz_verif") {
		return ""
	}
	return fmt.Sprintf("%s:%d", strings.TrimPrefix(p.Filename, repoDir+"/"), p.Line)
}

// yield lets every other runnable thread run until all are blocked or done (vQuiesce).
func (ex *Exec) quiesce(site ssa.Instruction) {
	cur := ex.cur
	for {
		var next *Thread
		for _, t := range ex.threads {
			if t != cur && t.what != "quiesce" && t.runnable() {
				next = t
				break
			}
		}
		if next == nil {
			return
		}
		// make cur wait until no other thread is runnable
		cur.ready = func() bool {
			for _, t := range ex.threads {
				// another goroutine that is itself waiting for quiescence does not count as running
				if t != cur && t.what != "quiesce" && t.runnable() {
					return false
				}
			}
			return true
		}
		cur.what = "quiesce"
		ex.switchTo(next)
		cur.ready = nil
		cur.what = ""
	}
}

// killThreads terminates all goroutines of the path (called by the driver at path end).
func (ex *Exec) killThreads() {
	ex.killing = true
	for _, t := range ex.threads {
		if t.isMain {
			continue
		}
		select {
		case <-t.exited:
			continue
		default:
		}
		t.wake <- struct{}{}
		<-t.exited
	}
}

// ---------------------------------------------------------------------------------------
// channels

type pendingSend struct {
	val   Value
	taken bool
	vc    VC
}

type chanExtra struct {
	sendq []*pendingSend
	vcs   []VC // per buffered element
	closeVC VC
}

func (ex *Exec) newChan(cap int, et types.Type) *ChanObj {
	ex.nChan++
	return &ChanObj{cap: cap, id: ex.nChan, et: et}
}

func (ex *Exec) chx(c *ChanObj) *chanExtra {
	m, _ := ex.hctx["chx"].(map[*ChanObj]*chanExtra)
	if m == nil {
		m = map[*ChanObj]*chanExtra{}
		ex.hctx["chx"] = m
	}
	x := m[c]
	if x == nil {
		x = &chanExtra{}
		m[c] = x
	}
	return x
}

func (ex *Exec) chanSend(fr *Frame, site ssa.Instruction, c *ChanObj, v Value) {
	ex.syncPoint(site)
	if c == nil {
		ex.blockUntil(func() bool { return false }, "send on nil channel", site)
	}
	if c.closed {
		panic(&goPanic{val: ex.makeRuntimeError("send on closed channel"), descr: "send on closed channel", site: ex.site(site), rt: true})
	}
	x := ex.chx(c)
	cur := ex.cur
	cur.tick()
	if c.cap > 0 {
		ex.blockUntil(func() bool { return len(c.buf) < c.cap || c.closed }, fmt.Sprintf("send chan#%d", c.id), site)
		if c.closed {
			panic(&goPanic{val: ex.makeRuntimeError("send on closed channel"), descr: "send on closed channel", site: ex.site(site), rt: true})
		}
		c.buf = append(c.buf, copyVal(v))
		x.vcs = append(x.vcs, cur.vc.clone())
		return
	}
	ps := &pendingSend{val: copyVal(v), vc: cur.vc.clone()}
	x.sendq = append(x.sendq, ps)
	ex.blockUntil(func() bool { return ps.taken || c.closed }, fmt.Sprintf("send chan#%d", c.id), site)
	if !ps.taken && c.closed {
		panic(&goPanic{val: ex.makeRuntimeError("send on closed channel"), descr: "send on closed channel", site: ex.site(site), rt: true})
	}
}

func (ex *Exec) chanReady(c *ChanObj) bool {
	if c == nil {
		return false
	}
	if len(c.buf) > 0 || c.closed {
		return true
	}
	x := ex.chx(c)
	for _, ps := range x.sendq {
		if !ps.taken {
			return true
		}
	}
	return false
}

func (ex *Exec) chanTake(c *ChanObj) (Value, bool) {
	x := ex.chx(c)
	cur := ex.cur
	if len(c.buf) > 0 {
		v := c.buf[0]
		c.buf = c.buf[1:]
		if len(x.vcs) > 0 {
			cur.vc = cur.vc.join(x.vcs[0])
			x.vcs = x.vcs[1:]
		}
		return v, true
	}
	for i, ps := range x.sendq {
		if !ps.taken {
			ps.taken = true
			cur.vc = cur.vc.join(ps.vc)
			x.sendq = append(x.sendq[:i:i], x.sendq[i+1:]...)
			return ps.val, true
		}
	}
	if c.closed {
		cur.vc = cur.vc.join(x.closeVC)
		return zero(c.et), false
	}
	panic("chanTake on non-ready channel")
}

func (ex *Exec) chanRecv(fr *Frame, site ssa.Instruction, c *ChanObj, commaOk bool) Value {
	ex.syncPoint(site)
	if c == nil {
		ex.blockUntil(func() bool { return false }, "receive on nil channel", site)
	}
	ex.blockUntil(func() bool { return ex.chanReady(c) }, fmt.Sprintf("recv chan#%d", c.id), site)
	v, ok := ex.chanTake(c)
	if commaOk {
		return Tuple{v, mkBool(ok)}
	}
	return v
}

func (ex *Exec) chanClose(fr *Frame, site ssa.Instruction, c *ChanObj) {
	ex.syncPoint(site)
	if c == nil {
		panic(&goPanic{val: ex.makeRuntimeError("close of nil channel"), descr: "close of nil channel", site: ex.site(site), rt: true})
	}
	if c.closed {
		panic(&goPanic{val: ex.makeRuntimeError("close of closed channel"), descr: "close of closed channel", site: ex.site(site), rt: true})
	}
	c.closed = true
	ex.cur.tick()
	ex.chx(c).closeVC = ex.cur.vc.clone()
}

func (ex *Exec) selectOp(fr *Frame, in *ssa.Select) Value {
	ex.syncPoint(in)
	type st struct {
		c    *ChanObj
		send bool
		val  Value
	}
	states := make([]st, len(in.States))
	for i, s := range in.States {
		c, _ := fr.get(s.Chan).(*ChanObj)
		states[i] = st{c: c, send: s.Dir == types.SendOnly}
		if states[i].send {
			states[i].val = fr.get(s.Send)
		}
	}
	readyIdx := func() []int {
		var r []int
		for i, s := range states {
			if s.c == nil {
				continue
			}
			if s.send {
				if s.c.closed || (s.c.cap > 0 && len(s.c.buf) < s.c.cap) || (s.c.cap == 0 && ex.recvWaiting(s.c) > 0) {
					r = append(r, i)
				}
			} else if ex.chanReady(s.c) {
				r = append(r, i)
			}
		}
		return r
	}
	rd := readyIdx()
	if len(rd) == 0 {
		if !in.Blocking {
			return ex.selectResult(in, -1, nil, false)
		}
		// register as waiting receiver on the recv channels
		for _, s := range states {
			if !s.send && s.c != nil {
				ex.setRecvWaiting(s.c, +1)
			}
		}
		ex.blockUntil(func() bool { return len(readyIdx()) > 0 }, "select", in)
		for _, s := range states {
			if !s.send && s.c != nil {
				ex.setRecvWaiting(s.c, -1)
			}
		}
		rd = readyIdx()
		if len(rd) == 0 {
			var d string
			for _, s := range states {
				if s.c != nil {
					d += fmt.Sprintf(" chan#%d(len=%d cap=%d closed=%v timer=%v send=%v)", s.c.id, len(s.c.buf), s.c.cap, s.c.closed, s.c.timer, s.send)
				} else {
					d += " nil-chan"
				}
			}
			panic(unsupported("select resumed with no ready case:" + d + " at " + ex.site(in)))
		}
	}
	k := 0
	if len(rd) > 1 {
		ex.nondetEnv++
		k = ex.choose(len(rd), func(int) *Term { return nil }, in)
	}
	i := rd[k]
	s := states[i]
	if s.send {
		if s.c.closed {
			panic(&goPanic{val: ex.makeRuntimeError("send on closed channel"), descr: "send on closed channel", site: ex.site(in), rt: true})
		}
		ex.cur.tick()
		x := ex.chx(s.c)
		if s.c.cap > 0 {
			s.c.buf = append(s.c.buf, copyVal(s.val))
			x.vcs = append(x.vcs, ex.cur.vc.clone())
		} else {
			ps := &pendingSend{val: copyVal(s.val), vc: ex.cur.vc.clone()}
			x.sendq = append(x.sendq, ps)
			ex.blockUntil(func() bool { return ps.taken }, "select-send handoff", in)
		}
		return ex.selectResult(in, i, nil, false)
	}
	v, ok := ex.chanTake(s.c)
	return ex.selectResult(in, i, v, ok)
}

func (ex *Exec) selectResult(in *ssa.Select, chosen int, v Value, ok bool) Value {
	r := Tuple{mkBV(SBV64, uint64(int64(chosen))), mkBool(ok)}
	for i, s := range in.States {
		if s.Dir == types.RecvOnly {
			if i == chosen && ok {
				r = append(r, v)
			} else {
				r = append(r, zero(s.Chan.Type().Underlying().(*types.Chan).Elem()))
			}
		}
	}
	return r
}

func (ex *Exec) recvWaiting(c *ChanObj) int { return c.recvWaiting }
func (ex *Exec) setRecvWaiting(c *ChanObj, d int) { c.recvWaiting += d }

// ---------------------------------------------------------------------------------------
// race detection (happens-before with vector clocks)

type accessRec struct {
	tid   int
	clock int
	site  string
}
type shadowCell struct {
	w     *accessRec
	reads []accessRec
}
type RaceReport struct {
	A, B   string
	AWrite bool
	BWrite bool
	What   string
}

func (ex *Exec) access(p *Value, write bool, site ssa.Instruction) {
	if !ex.raceOn || len(ex.threads) < 2 {
		return
	}
	cur := ex.cur
	sc := ex.shadow[p]
	if sc == nil {
		sc = &shadowCell{}
		ex.shadow[p] = sc
	}
	cl := cur.vc.get(cur.id)
	hb := func(a *accessRec) bool { return a.tid == cur.id || a.clock <= cur.vc.get(a.tid) }
	if sc.w != nil && !hb(sc.w) {
		ex.reportRace(sc.w, true, site, write)
	}
	if write {
		if os.Getenv("GOSYM_RACEDBG") != "" && strings.Contains(ex.site(site), os.Getenv("GOSYM_RACEDBG")) {
			for i := range sc.reads {
				fmt.Fprintf(os.Stderr, "RACEDBG write by t%d at %s: read t%d clock=%d site=%s known=%d\n", cur.id, ex.site(site), sc.reads[i].tid, sc.reads[i].clock, sc.reads[i].site, cur.vc.get(sc.reads[i].tid))
			}
		}
		for i := range sc.reads {
			if !hb(&sc.reads[i]) {
				ex.reportRace(&sc.reads[i], false, site, true)
			}
		}
		sc.w = &accessRec{tid: cur.id, clock: cl, site: ex.site(site)}
		sc.reads = sc.reads[:0]
	} else {
		for i := range sc.reads {
			if sc.reads[i].tid == cur.id {
				sc.reads[i].clock = cl
				sc.reads[i].site = ex.site(site)
				return
			}
		}
		sc.reads = append(sc.reads, accessRec{tid: cur.id, clock: cl, site: ex.site(site)})
	}
}

func (ex *Exec) reportRace(prev *accessRec, prevWrite bool, site ssa.Instruction, write bool) {
	r := RaceReport{A: prev.site, AWrite: prevWrite, B: ex.site(site), BWrite: write}
	for _, o := range ex.races {
		if o.A == r.A && o.B == r.B {
			return
		}
	}
	ex.races = append(ex.races, r)
}
