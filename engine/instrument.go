package main

// Source instrumentation for the native confirmation of schedule-dependent violations: a copy of a
// /repo source file in which every statement that performs a synchronisation operation is preceded by
// verifSP("file.go:line"). Line numbers are preserved (text is inserted on the same line). verifSP holds
// the calling goroutine for a short while when the witness says the engine preempted that operation.
// Only used for the separate "sched" confirmation binary; path co-execution runs the unmodified code.

import (
	"fmt"
	"go/ast"
	"go/parser"
	"go/token"
	"os"
	"path/filepath"
	"sort"
	"strings"
	"sync"
)

var syncMethodNames = map[string]bool{
	"Lock": true, "Unlock": true, "RLock": true, "RUnlock": true, "Wait": true, "Do": true,
	"Load": true, "Store": true, "Delete": true, "LoadOrStore": true, "LoadAndDelete": true, "Range": true,
	"Add": true, "CompareAndSwap": true, "Swap": true, "Broadcast": true, "Signal": true,
}

type insertion struct {
	off  int
	text string
}

// instrumentSource returns src with verifSP calls inserted, or nil if nothing was inserted / parse failed.
func instrumentSource(relName string, src []byte) []byte {
	out, _ := instrumentSourceKeys(relName, src)
	return out
}

// instrumentSourceKeys also returns the site keys that received a verifSP call.
func instrumentSourceKeys(relName string, src []byte) ([]byte, map[string]bool) {
	keys := map[string]bool{}
	fset := token.NewFileSet()
	f, err := parser.ParseFile(fset, relName, src, parser.ParseComments)
	if err != nil {
		return nil, keys
	}
	var ins []insertion
	// lines of synchronisation operations directly inside expression e (not inside function literals)
	var opLines func(n ast.Node, lines map[int]bool)
	opLines = func(n ast.Node, lines map[int]bool) {
		if n == nil {
			return
		}
		ast.Inspect(n, func(x ast.Node) bool {
			switch v := x.(type) {
			case *ast.FuncLit:
				return false
			case *ast.CallExpr:
				if sel, ok := v.Fun.(*ast.SelectorExpr); ok && syncMethodNames[sel.Sel.Name] {
					lines[fset.Position(v.Lparen).Line] = true
				}
				if id, ok := v.Fun.(*ast.Ident); ok && id.Name == "close" {
					lines[fset.Position(v.Lparen).Line] = true
				}
			case *ast.UnaryExpr:
				if v.Op == token.ARROW {
					lines[fset.Position(v.OpPos).Line] = true
				}
			}
			return true
		})
	}
	addBefore := func(s ast.Stmt, lines map[int]bool) {
		if len(lines) == 0 {
			return
		}
		var ls []int
		for l := range lines {
			ls = append(ls, l)
		}
		sort.Ints(ls)
		text := ""
		for _, l := range ls {
			k := fmt.Sprintf("%s:%d", relName, l)
			keys[k] = true
			text += fmt.Sprintf("verifSP(%q); ", k)
		}
		ins = append(ins, insertion{fset.Position(s.Pos()).Offset, text})
	}
	var doList func(list []ast.Stmt)
	var doStmtBody func(s ast.Stmt)
	doList = func(list []ast.Stmt) {
		for _, s := range list {
			lines := map[int]bool{}
			switch v := s.(type) {
			case *ast.ExprStmt:
				opLines(v.X, lines)
			case *ast.AssignStmt:
				for _, e := range v.Rhs {
					opLines(e, lines)
				}
			case *ast.SendStmt:
				lines[fset.Position(v.Arrow).Line] = true
			case *ast.ReturnStmt:
				for _, e := range v.Results {
					opLines(e, lines)
				}
			case *ast.GoStmt:
				lines[fset.Position(v.Go).Line] = true
			case *ast.SelectStmt:
				lines[fset.Position(v.Select).Line] = true
			case *ast.IfStmt:
				if v.Init == nil {
					opLines(v.Cond, lines)
				}
			case *ast.DeferStmt:
				// defer x.Unlock() -> defer func() { verifSP(..); x.Unlock() }()
				if sel, ok := v.Call.Fun.(*ast.SelectorExpr); ok && syncMethodNames[sel.Sel.Name] && len(v.Call.Args) == 0 {
					key := fmt.Sprintf("%s:%d", relName, fset.Position(v.Defer).Line)
					keys[key] = true
					ins = append(ins, insertion{fset.Position(v.Call.Pos()).Offset, fmt.Sprintf("func() { verifSP(%q); ", key)})
					ins = append(ins, insertion{fset.Position(v.Call.End()).Offset, " }()"})
				}
			}
			if _, isLabeled := s.(*ast.LabeledStmt); !isLabeled {
				addBefore(s, lines)
			}
			doStmtBody(s)
		}
	}
	doStmtBody = func(s ast.Stmt) {
		// nested blocks and function literals
		ast.Inspect(s, func(x ast.Node) bool {
			switch v := x.(type) {
			case *ast.BlockStmt:
				doList(v.List)
				return false
			case *ast.CaseClause:
				doList(v.Body)
				return false
			case *ast.CommClause:
				doList(v.Body)
				return false
			}
			return true
		})
	}
	for _, d := range f.Decls {
		if fd, ok := d.(*ast.FuncDecl); ok && fd.Body != nil {
			doList(fd.Body.List)
		}
	}
	if len(ins) == 0 {
		return nil, keys
	}
	sort.SliceStable(ins, func(i, j int) bool { return ins[i].off < ins[j].off })
	var out []byte
	prev := 0
	for _, in := range ins {
		out = append(out, src[prev:in.off]...)
		out = append(out, in.text...)
		prev = in.off
	}
	out = append(out, src[prev:]...)
	return out, keys
}

var (
	instrSitesOnce sync.Once
	instrSites     map[string]bool
)

// instrumentedSites: every site key of the /repo root package that the instrumenter reaches.
func instrumentedSites() map[string]bool {
	instrSitesOnce.Do(func() {
		instrSites = map[string]bool{}
		ents, _ := os.ReadDir(repoDir)
		for _, e := range ents {
			nm := e.Name()
			if e.IsDir() || !strings.HasSuffix(nm, ".go") || strings.HasSuffix(nm, "_test.go") {
				continue
			}
			src, err := os.ReadFile(filepath.Join(repoDir, nm))
			if err != nil {
				continue
			}
			_, ks := instrumentSourceKeys(nm, src)
			for k := range ks {
				instrSites[k] = true
			}
		}
	})
	return instrSites
}
