package main

// Long-lived SMT solver processes (cvc5 primary, z3 cross-check), SMT-LIB2 over pipes.

import (
	"bufio"
	"fmt"
	"io"
	"math"
	"os"
	"os/exec"
	"strconv"
	"strings"
	"sync/atomic"
	"time"
)

type SatResult int

const (
	Unsat SatResult = iota
	Sat
	Unknown
)

func (r SatResult) String() string { return [...]string{"unsat", "sat", "unknown"}[r] }

type solverProc struct {
	name string
	cmd  *exec.Cmd
	in   io.WriteCloser
	out  *bufio.Reader
	log  io.Writer
}

func startProc(name string, timeoutMs int) (*solverProc, error) {
	var cmd *exec.Cmd
	switch name {
	case "cvc5":
		cmd = exec.Command("cvc5", "--incremental", "--strings-exp", "--produce-models", "--lang=smt2",
			fmt.Sprintf("--tlimit-per=%d", timeoutMs))
	case "z3":
		cmd = exec.Command("z3-new", "-in", fmt.Sprintf("-t:%d", timeoutMs))
	case "z3old":
		cmd = exec.Command("z3", "-in", fmt.Sprintf("-t:%d", timeoutMs))
	default:
		return nil, fmt.Errorf("unknown solver %s", name)
	}
	in, err := cmd.StdinPipe()
	if err != nil {
		return nil, err
	}
	outp, err := cmd.StdoutPipe()
	if err != nil {
		return nil, err
	}
	cmd.Stderr = os.Stderr
	if err := cmd.Start(); err != nil {
		return nil, err
	}
	p := &solverProc{name: name, cmd: cmd, in: in, out: bufio.NewReaderSize(outp, 1<<16)}
	if f := os.Getenv("GOSYM_SMTLOG"); f != "" {
		lf, _ := os.OpenFile(fmt.Sprintf("%s.%s.%d", f, name, cmd.Process.Pid), os.O_CREATE|os.O_WRONLY|os.O_TRUNC, 0644)
		p.log = lf
	}
	p.send("(set-logic ALL)\n")
	if name != "cvc5" {
		p.send("(set-option :produce-models true)\n")
	}
	return p, nil
}

func (p *solverProc) send(s string) {
	if p.log != nil {
		io.WriteString(p.log, s)
	}
	io.WriteString(p.in, s)
}

func (p *solverProc) close() {
	p.in.Close()
	done := make(chan struct{})
	go func() { p.cmd.Wait(); close(done) }()
	select {
	case <-done:
	case <-time.After(2 * time.Second):
		p.cmd.Process.Kill()
	}
}

// readResult reads lines until sat/unsat/unknown; any (error line makes it Unknown.
func (p *solverProc) readResult() (SatResult, string) {
	sawErr := ""
	for {
		line, err := p.out.ReadString('\n')
		if err != nil {
			return Unknown, "solver died: " + err.Error() + " " + sawErr
		}
		line = strings.TrimSpace(line)
		if p.log != nil {
			fmt.Fprintf(p.log, "; <- %s\n", line)
		}
		switch {
		case line == "sat":
			if sawErr != "" {
				return Unknown, sawErr
			}
			return Sat, ""
		case line == "unsat":
			if sawErr != "" {
				return Unknown, sawErr
			}
			return Unsat, ""
		case line == "unknown" || line == "timeout":
			return Unknown, sawErr + " unknown"
		case strings.HasPrefix(line, "(error"):
			sawErr += line
		}
	}
}

// readSexp reads one balanced s-expression from the solver output.
func (p *solverProc) readSexp() (string, error) {
	var b strings.Builder
	depth := 0
	started := false
	inStr := false
	for {
		c, err := p.out.ReadByte()
		if err != nil {
			return b.String(), err
		}
		if !started {
			if c == ' ' || c == '\n' || c == '\r' || c == '\t' {
				continue
			}
			started = true
		}
		b.WriteByte(c)
		if inStr {
			if c == '"' {
				inStr = false
			}
			continue
		}
		switch c {
		case '"':
			inStr = true
		case '(':
			depth++
		case ')':
			depth--
			if depth == 0 {
				return b.String(), nil
			}
		case '\n':
			if depth == 0 {
				return strings.TrimSpace(b.String()), nil
			}
		}
	}
}

// ---------------------------------------------------------------------------------------

type SolverStats struct {
	Sat, Unsat, Unknown int64
	TimeNs              int64
	XSat, XUnsat, XUnknown, XDisagree, XSkipped int64
	XTimeNs             int64
}

var gStats SolverStats

// Solver is the per-worker front: one primary process with a per-path scope, plus an optional
// cross-check process fed with standalone scripts.
type Solver struct {
	p       *solverProc
	x       *solverProc // cross-check (may be nil)
	defined map[*Term]string
	declared map[string]Sort
	nDef    int
	script  []string // commands of the current path scope (for cross-check)
	inPath  bool
	usesStrFP bool
	timeoutMs int
}

func newSolver(primaryTimeoutMs int, cross bool) (*Solver, error) {
	p, err := startProc("cvc5", primaryTimeoutMs)
	if err != nil {
		return nil, err
	}
	s := &Solver{p: p, timeoutMs: primaryTimeoutMs}
	if cross {
		// the second solver gets 5 s per query in the quick tier and 20 s in the thorough one
		xms := 5000
		if primaryTimeoutMs > 20000 {
			xms = 20000
		}
		x, err := startProc("z3", xms)
		if err == nil {
			s.x = x
		}
	}
	return s, nil
}

// restart replaces a dead primary process and replays the current path scope into it.
func (s *Solver) restart() {
	s.p.close()
	p, err := startProc("cvc5", s.timeoutMs)
	if err != nil {
		return
	}
	s.p = p
	if s.inPath {
		s.p.send("(push 1)\n")
		for _, c := range s.script {
			s.p.send(c)
		}
	}
}

func (s *Solver) Close() {
	s.p.close()
	if s.x != nil {
		s.x.close()
	}
}

func (s *Solver) cmd(c string) {
	s.p.send(c)
	if s.inPath {
		s.script = append(s.script, c)
	}
}

func (s *Solver) BeginPath() {
	s.p.send("(push 1)\n")
	s.defined = map[*Term]string{}
	s.declared = map[string]Sort{}
	s.script = s.script[:0]
	s.inPath = true
	s.usesStrFP = false
}

func (s *Solver) EndPath() {
	s.inPath = false
	s.p.send("(pop 1)\n")
}

// prepare emits declarations / definitions needed by t and returns its text.
func (s *Solver) prepare(t *Term) string {
	s.defineRec(t)
	var b strings.Builder
	t.write(&b, s.ref)
	return b.String()
}

func (s *Solver) ref(t *Term) (string, bool) {
	n, ok := s.defined[t]
	return n, ok
}

func isLeafish(t *Term) bool {
	if t.Op == "const" || t.Op == "var" {
		return true
	}
	return false
}

func (s *Solver) defineRec(t *Term) {
	if _, ok := s.defined[t]; ok {
		return
	}
	if t.Op == "var" {
		name := t.K.(string)
		if _, ok := s.declared[name]; !ok {
			s.declared[name] = t.Sort
			s.cmd(fmt.Sprintf("(declare-const %s %s)\n", name, t.Sort))
		}
		if t.Sort == SStr || t.Sort == SF64 || t.Sort == SF32 {
			s.usesStrFP = true
		}
		return
	}
	if t.Op == "const" {
		return
	}
	if t.Sort == SStr || strings.HasPrefix(t.Op, "str.") || strings.HasPrefix(t.Op, "fp.") {
		s.usesStrFP = true
	}
	big := false
	for _, a := range t.Args {
		s.defineRec(a)
		if !isLeafish(a) {
			big = true
		}
	}
	if big {
		s.nDef++
		name := fmt.Sprintf("t!%d", s.nDef)
		var b strings.Builder
		t.write(&b, func(x *Term) (string, bool) {
			if x == t {
				return "", false
			}
			return s.ref(x)
		})
		s.cmd(fmt.Sprintf("(define-fun %s () %s %s)\n", name, t.Sort, b.String()))
		s.defined[t] = name
	}
}

func (s *Solver) Assert(t *Term) {
	if v, ok := t.BoolVal(); ok && v {
		return
	}
	txt := s.prepare(t)
	s.cmd("(assert " + txt + ")\n")
}

// Check decides path ∧ extra (extra may be nil). If wantModel and sat, values of vars are returned.
func (s *Solver) Check(extra *Term, vars []*Term) (SatResult, map[string]ModelVal, string) {
	txt := ""
	if extra != nil {
		if v, ok := extra.BoolVal(); ok {
			if !v {
				return Unsat, nil, ""
			}
			extra = nil
		} else {
			txt = s.prepare(extra)
		}
	}
	for _, v := range vars {
		s.defineRec(v)
	}
	t0 := time.Now()
	s.p.send("(push 1)\n")
	if extra != nil {
		s.p.send("(assert " + txt + ")\n")
	}
	s.p.send("(check-sat)\n")
	r, msg := s.p.readResult()
	atomic.AddInt64(&gStats.TimeNs, int64(time.Since(t0)))
	if strings.Contains(msg, "solver died") {
		s.restart()
		atomic.AddInt64(&gStats.Unknown, 1)
		return Unknown, nil, msg
	}
	var model map[string]ModelVal
	switch r {
	case Sat:
		atomic.AddInt64(&gStats.Sat, 1)
		if len(vars) > 0 {
			model = s.getValues(vars)
		}
	case Unsat:
		atomic.AddInt64(&gStats.Unsat, 1)
	default:
		atomic.AddInt64(&gStats.Unknown, 1)
	}
	s.p.send("(pop 1)\n")
	return r, model, msg
}

// CrossCheck re-decides path ∧ extra on the second solver from a standalone script.
// Returns Unknown when there is no second solver or it has no opinion.
func (s *Solver) CrossCheck(extra *Term) SatResult {
	if s.x == nil {
		return Unknown
	}
	if s.usesStrFP {
		// string / floating-point queries are decided by cvc5 alone (z3 times out on them: DESIGN 2.4)
		atomic.AddInt64(&gStats.XSkipped, 1)
		return Unknown
	}
	txt := ""
	if extra != nil {
		txt = s.prepare(extra)
	}
	t0 := time.Now()
	s.x.send("(push 1)\n")
	for _, c := range s.script {
		s.x.send(c)
	}
	if extra != nil {
		s.x.send("(assert " + txt + ")\n")
	}
	s.x.send("(check-sat)\n")
	r, _ := s.x.readResult()
	s.x.send("(pop 1)\n")
	atomic.AddInt64(&gStats.XTimeNs, int64(time.Since(t0)))
	switch r {
	case Sat:
		atomic.AddInt64(&gStats.XSat, 1)
	case Unsat:
		atomic.AddInt64(&gStats.XUnsat, 1)
	default:
		atomic.AddInt64(&gStats.XUnknown, 1)
	}
	return r
}

// ---------------------------------------------------------------------------------------

// ModelVal is a concrete value from a model.
type ModelVal struct {
	Sort Sort
	B    bool
	U    uint64  // BV
	I    int64   // Int
	F    float64 // FP
	S    string
}

func (m ModelVal) String() string {
	switch m.Sort {
	case SBool:
		return fmt.Sprint(m.B)
	case SInt:
		return fmt.Sprint(m.I)
	case SF64, SF32:
		return fmt.Sprint(m.F)
	case SStr:
		return strconv.Quote(m.S)
	}
	return fmt.Sprint(m.U)
}

func (s *Solver) getValues(vars []*Term) map[string]ModelVal {
	res := map[string]ModelVal{}
	// query in chunks
	for i := 0; i < len(vars); i += 50 {
		j := i + 50
		if j > len(vars) {
			j = len(vars)
		}
		var b strings.Builder
		b.WriteString("(get-value (")
		for _, v := range vars[i:j] {
			b.WriteString(v.K.(string))
			b.WriteByte(' ')
		}
		b.WriteString("))\n")
		s.p.send(b.String())
		sx, err := s.p.readSexp()
		if err != nil {
			return res
		}
		if s.p.log != nil {
			fmt.Fprintf(s.p.log, "; <- %s\n", sx)
		}
		toks := tokenize(sx)
		pos := 0
		tree := parseSexp(toks, &pos)
		for k, pair := range tree.kids {
			if len(pair.kids) != 2 || k >= len(vars[i:j]) {
				continue
			}
			v := vars[i+k]
			res[v.K.(string)] = parseModelVal(v.Sort, pair.kids[1])
		}
	}
	return res
}

type sexp struct {
	atom string
	kids []*sexp
	list bool
}

func tokenize(s string) []string {
	var toks []string
	i := 0
	for i < len(s) {
		c := s[i]
		switch {
		case c == '(' || c == ')':
			toks = append(toks, string(c))
			i++
		case c == ' ' || c == '\n' || c == '\t' || c == '\r':
			i++
		case c == '"':
			j := i + 1
			for j < len(s) {
				if s[j] == '"' {
					if j+1 < len(s) && s[j+1] == '"' {
						j += 2
						continue
					}
					break
				}
				j++
			}
			toks = append(toks, s[i:j+1])
			i = j + 1
		default:
			j := i
			for j < len(s) && !strings.ContainsRune("() \n\t\r", rune(s[j])) {
				j++
			}
			toks = append(toks, s[i:j])
			i = j
		}
	}
	return toks
}

func parseSexp(toks []string, pos *int) *sexp {
	if *pos >= len(toks) {
		return &sexp{}
	}
	t := toks[*pos]
	*pos++
	if t == "(" {
		n := &sexp{list: true}
		for *pos < len(toks) && toks[*pos] != ")" {
			n.kids = append(n.kids, parseSexp(toks, pos))
		}
		*pos++
		return n
	}
	return &sexp{atom: t}
}

func unescapeSMT(s string) string {
	// s includes the surrounding quotes
	s = s[1 : len(s)-1]
	s = strings.ReplaceAll(s, `""`, `"`)
	var b []byte
	for i := 0; i < len(s); {
		if s[i] == '\\' && i+1 < len(s) && s[i+1] == 'u' {
			// \u{X..} or \uXXXX
			if i+2 < len(s) && s[i+2] == '{' {
				j := strings.IndexByte(s[i:], '}')
				if j > 0 {
					n, err := strconv.ParseUint(s[i+3:i+j], 16, 32)
					if err == nil {
						if n < 256 {
							b = append(b, byte(n))
						} else {
							b = append(b, []byte(string(rune(n)))...)
						}
						i += j + 1
						continue
					}
				}
			} else if i+6 <= len(s) {
				n, err := strconv.ParseUint(s[i+2:i+6], 16, 32)
				if err == nil {
					if n < 256 {
						b = append(b, byte(n))
					} else {
						b = append(b, []byte(string(rune(n)))...)
					}
					i += 6
					continue
				}
			}
		}
		b = append(b, s[i])
		i++
	}
	return string(b)
}

func parseBits(a string) (uint64, uint) {
	if strings.HasPrefix(a, "#b") {
		v, _ := strconv.ParseUint(a[2:], 2, 64)
		return v, uint(len(a) - 2)
	}
	if strings.HasPrefix(a, "#x") {
		v, _ := strconv.ParseUint(a[2:], 16, 64)
		return v, uint(4 * (len(a) - 2))
	}
	return 0, 0
}

func parseModelVal(sort Sort, e *sexp) ModelVal {
	m := ModelVal{Sort: sort}
	switch sort {
	case SBool:
		m.B = e.atom == "true"
	case SInt:
		if e.list {
			if len(e.kids) == 2 && e.kids[0].atom == "-" {
				v, _ := strconv.ParseInt(e.kids[1].atom, 10, 64)
				m.I = -v
			}
		} else {
			v, _ := strconv.ParseInt(e.atom, 10, 64)
			m.I = v
		}
	case SBV8, SBV16, SBV32, SBV64:
		if e.list { // (_ bvN w)
			if len(e.kids) == 3 && strings.HasPrefix(e.kids[1].atom, "bv") {
				v, _ := strconv.ParseUint(e.kids[1].atom[2:], 10, 64)
				m.U = v
			}
		} else {
			m.U, _ = parseBits(e.atom)
		}
	case SF64, SF32:
		eb, sb := uint(11), uint(52)
		if sort == SF32 {
			eb, sb = 8, 23
		}
		var bits uint64
		if e.list && len(e.kids) == 4 && e.kids[0].atom == "fp" {
			sg, _ := parseBits(e.kids[1].atom)
			ex, _ := parseBits(e.kids[2].atom)
			mt, _ := parseBits(e.kids[3].atom)
			bits = sg<<(eb+sb) | ex<<sb | mt
		} else if e.list && len(e.kids) >= 2 && e.kids[0].atom == "_" {
			expAll := (uint64(1)<<eb - 1) << sb
			switch e.kids[1].atom {
			case "+zero":
				bits = 0
			case "-zero":
				bits = uint64(1) << (eb + sb)
			case "+oo":
				bits = expAll
			case "-oo":
				bits = uint64(1)<<(eb+sb) | expAll
			case "NaN":
				bits = expAll | uint64(1)<<(sb-1)
			}
		}
		if sort == SF32 {
			m.F = float64(math.Float32frombits(uint32(bits)))
		} else {
			m.F = math.Float64frombits(bits)
		}
	case SStr:
		if !e.list && len(e.atom) >= 2 {
			m.S = unescapeSMT(e.atom)
		}
	}
	return m
}
