package main

// encoding/json entry points, net/http and net/url leaves, bufio readers.

import (
	"fmt"
	"go/types"
	"net/textproto"
	"net/url"
	"strings"

	"golang.org/x/tools/go/ssa"
)

func (ex *Exec) bytesToTree(v Value, site ssa.Instruction) (*JNode, string) {
	var content Value
	switch b := v.(type) {
	case ByteStr:
		content = b.s
	case Slice:
		if b.n == 0 {
			return nil, "unexpected end of JSON input"
		}
		// concrete bytes
		var sb strings.Builder
		for i := 0; i < b.n; i++ {
			c, ok := b.a[i].(*Term).BVVal()
			if !ok {
				panic(unsupported("unmarshal of symbolic byte slice"))
			}
			sb.WriteByte(byte(c))
		}
		content = mkStr(sb.String())
	case *Term, *Rope:
		content = b
	default:
		panic(unsupported(fmt.Sprintf("unmarshal input %T", v)))
	}
	if n, ok := ropeJSON(content); ok {
		if n.kind == JInvalid {
			return nil, "invalid character in JSON input"
		}
		return n, ""
	}
	// several JSON texts (and only white space) in one input: not one JSON value
	if parts := ropeParts(content); len(parts) > 1 {
		trees, other := 0, false
		for _, p := range parts {
			switch x := p.(type) {
			case *JNode:
				trees++
			case *Term:
				if c, ok := x.StrVal(); !ok || strings.TrimSpace(c) != "" {
					other = true
				}
			}
		}
		if trees > 1 && !other {
			return nil, "invalid character after top-level value"
		}
	}
	if t, ok := content.(*Term); ok {
		if s, ok := t.StrVal(); ok {
			if strings.TrimSpace(s) == "" {
				return nil, "unexpected end of JSON input"
			}
			n, err := parseJSONText(s)
			if err != nil {
				return nil, err.Error()
			}
			return n, ""
		}
	}
	if t, ok := content.(*Term); ok {
		if as, ok := fixedAtoms(t); ok && len(as) > 0 {
			// a fixed-length character sequence: not JSON when its first byte can neither start a JSON
			// value nor be white space (decided by the solver; anything else is not modelled)
			canStart := tFalse
			for _, c := range []byte("{[\"-0123456789tfn \t\r\n") {
				canStart = tOr(canStart, atomEq(as[0], c))
			}
			if !ex.branch(canStart, site) {
				return nil, "invalid character looking for beginning of value"
			}
		}
	}
	panic(unsupported("unmarshal of non-tree symbolic text at " + ex.site(site)))
}

func (ex *Exec) doUnmarshal(fr *Frame, site ssa.Instruction, n *JNode, target Iface) Iface {
	if target.t == nil {
		return ex.makeError(mkStr("json: Unmarshal(nil)"))
	}
	pt, ok := target.t.Underlying().(*types.Pointer)
	if !ok {
		return ex.makeError(mkStr("json: Unmarshal(non-pointer " + target.t.String() + ")"))
	}
	p := target.v.(*Value)
	if p == nil {
		return ex.makeError(mkStr("json: Unmarshal(nil " + target.t.String() + ")"))
	}
	d := &decodeState{}
	func() {
		defer func() {
			if r := recover(); r != nil {
				if _, ok := r.(decodeAbort); ok {
					return
				}
				panic(r)
			}
		}()
		ex.jsonUnmarshal(fr, site, d, n, p, pt.Elem())
	}()
	if d.firstErr != nil {
		return *d.firstErr
	}
	return Iface{}
}

func (ex *Exec) syntaxErr(msg string) Iface {
	t := ex.eng.lookupType("encoding/json", "SyntaxError")
	return Iface{t: types.NewPointer(t), v: newPtr(Struct{mkStr(msg), bvInt(0)})}
}

type decoderState struct {
	src      Iface
	pending  Value // unread content
	eof      bool
	stickErr *Iface
	badChunk Value // the content on which the decoder failed (what Buffered() still holds)
	stickHit int // Decode calls answered from the sticky error
	maxToken int // bufio.Scanner token limit (0 = bufio.MaxScanTokenSize)
}

func init() {
	reg("encoding/json.Marshal", func(ex *Exec, fr *Frame, site ssa.Instruction, a []Value) Value {
		i := a[0].(Iface)
		var n *JNode
		var e *jsonErr
		if i.t == nil {
			n = jNull()
		} else {
			n, e = ex.jsonMarshal(fr, site, i.v, i.t, nil)
		}
		if e != nil {
			return Tuple{Slice{nil: true}, ex.jsonErrValue(e)}
		}
		ex.jsonCount++
		return Tuple{ByteStr{s: &Rope{parts: []interface{}{n}}}, Iface{}}
	})
	reg("encoding/json.MarshalIndent", func(ex *Exec, fr *Frame, site ssa.Instruction, a []Value) Value {
		return intrinsics["encoding/json.Marshal"](ex, fr, site, a[:1])
	})
	reg("encoding/json.Unmarshal", func(ex *Exec, fr *Frame, site ssa.Instruction, a []Value) Value {
		n, msg := ex.bytesToTree(a[0], site)
		if n == nil {
			return ex.syntaxErr(msg)
		}
		return ex.doUnmarshal(fr, site, n, a[1].(Iface))
	})
	reg("encoding/json.Valid", func(ex *Exec, fr *Frame, site ssa.Instruction, a []Value) Value {
		n, _ := ex.bytesToTree(a[0], site)
		return mkBool(n != nil)
	})
	// Encoder: {w io.Writer ...}; engine keeps the writer in an Opaque
	reg("encoding/json.NewEncoder", func(ex *Exec, fr *Frame, site ssa.Instruction, a []Value) Value {
		t := ex.eng.lookupType("encoding/json", "Encoder")
		p := newPtr(zero(t))
		engState[decoderState](ex, "jsonenc", p).src = a[0].(Iface)
		return p
	})
	reg("(*encoding/json.Encoder).Encode", func(ex *Exec, fr *Frame, site ssa.Instruction, a []Value) Value {
		p := nilCheck(fr, site, a[0])
		est := engState[decoderState](ex, "jsonenc", p)
		// an Encoder's write error is sticky: every later Encode returns it without writing
		if est.stickErr != nil {
			return *est.stickErr
		}
		w := est.src
		i := a[1].(Iface)
		var n *JNode
		var e *jsonErr
		if i.t == nil {
			n = jNull()
		} else {
			n, e = ex.jsonMarshal(fr, site, i.v, i.t, nil)
		}
		if e != nil {
			return ex.jsonErrValue(e)
		}
		r := ex.writeTo(fr, site, w, &Rope{parts: []interface{}{n, mkStr("\n")}}).(Tuple)
		if we, ok := r[1].(Iface); ok && we.t != nil {
			est.stickErr = &we
		}
		return r[1]
	})
	reg("(*encoding/json.Encoder).SetEscapeHTML", func(ex *Exec, fr *Frame, site ssa.Instruction, a []Value) Value { return nil })
	reg("(*encoding/json.Encoder).SetIndent", func(ex *Exec, fr *Frame, site ssa.Instruction, a []Value) Value { return nil })
	reg("encoding/json.NewDecoder", func(ex *Exec, fr *Frame, site ssa.Instruction, a []Value) Value {
		t := ex.eng.lookupType("encoding/json", "Decoder")
		p := newPtr(zero(t))
		engState[decoderState](ex, "jsondec", p).src = a[0].(Iface)
		return p
	})
	reg("(*encoding/json.Decoder).Decode", func(ex *Exec, fr *Frame, site ssa.Instruction, a []Value) Value {
		p := nilCheck(fr, site, a[0])
		st := engState[decoderState](ex, "jsondec", p)
		if st.stickErr != nil {
			// A loop that keeps calling Decode after a sticky error makes no progress: after the third
			// identical answer the calling goroutine is treated as spinning forever (it never blocks and
			// never does anything else), which the engine represents by parking it.
			st.stickHit++
			if st.stickHit >= 3 && !ex.isEOF(*st.stickErr) {
				ex.spins = append(ex.spins, "busy loop on a sticky json.Decoder error at "+ex.site(site))
				ex.blockUntil(func() bool { return false }, "spinning on sticky decoder error", site)
			}
			return *st.stickErr
		}
		// a decoder consumes one JSON value per Decode; sources deliver one value per chunk
		var chunk Value
		for {
			c, err := ex.nextChunk(fr, site, st)
			if err.t != nil {
				st.stickErr = &err
				return err
			}
			// white space between values is skipped by the decoder
			if t, ok := c.(*Term); ok {
				if s, ok := t.StrVal(); ok && strings.TrimSpace(s) == "" {
					continue
				}
			}
			chunk = c
			break
		}
		n, msg := ex.bytesToTree(ByteStr{s: chunk}, site)
		if n == nil {
			e := ex.syntaxErr(msg)
			st.stickErr = &e // json.Decoder errors are sticky
			st.badChunk = chunk
			return e
		}
		return ex.doUnmarshal(fr, site, n, a[1].(Iface))
	})

	reg("(*encoding/json.Decoder).Buffered", func(ex *Exec, fr *Frame, site ssa.Instruction, a []Value) Value {
		// the unread data in the decoder's buffer: after a syntax error the offending text itself
		p := nilCheck(fr, site, a[0])
		st := engState[decoderState](ex, "jsondec", p)
		var content Value = mkStr("")
		if st.badChunk != nil {
			content = st.badChunk
		}
		r := ex.makeBytesReader(ByteStr{s: content})
		return Iface{t: types.NewPointer(ex.eng.lookupType("bytes", "Reader")), v: r}
	})
	reg("io.MultiReader", func(ex *Exec, fr *Frame, site ssa.Instruction, a []Value) Value {
		t := ex.eng.lookupType("bytes", "Reader")
		p := newPtr(zero(t))
		var subs []Iface
		if sl, ok := a[0].(Slice); ok {
			for i := 0; i < sl.n; i++ {
				subs = append(subs, sl.a[i].(Iface))
			}
		}
		ex.hctxSet(p, "multi", &multiState{subs: subs, eof: make([]bool, len(subs))})
		return Iface{t: types.NewPointer(t), v: p}
	})

	// ---- bufio over harness readers ----
	reg("bufio.NewReader", func(ex *Exec, fr *Frame, site ssa.Instruction, a []Value) Value {
		t := ex.eng.lookupType("bufio", "Reader")
		p := newPtr(zero(t))
		engState[decoderState](ex, "bufio", p).src = a[0].(Iface)
		return p
	})
	reg("bufio.NewReaderSize", func(ex *Exec, fr *Frame, site ssa.Instruction, a []Value) Value {
		return intrinsics["bufio.NewReader"](ex, fr, site, a[:1])
	})
	reg("(*bufio.Reader).ReadString", func(ex *Exec, fr *Frame, site ssa.Instruction, a []Value) Value {
		p := nilCheck(fr, site, a[0])
		st := engState[decoderState](ex, "bufio", p)
		d, ok := a[1].(*Term).BVVal()
		if !ok {
			panic(unsupported("ReadString symbolic delimiter"))
		}
		line, err := ex.readLine(fr, site, st, string([]byte{byte(d)}), true)
		return Tuple{line, err}
	})
	reg("(*bufio.Reader).ReadBytes", func(ex *Exec, fr *Frame, site ssa.Instruction, a []Value) Value {
		p := nilCheck(fr, site, a[0])
		st := engState[decoderState](ex, "bufio", p)
		d, ok := a[1].(*Term).BVVal()
		if !ok {
			panic(unsupported("ReadBytes symbolic delimiter"))
		}
		line, err := ex.readLine(fr, site, st, string([]byte{byte(d)}), true)
		return Tuple{ByteStr{s: line}, err}
	})
	reg("bytes.TrimSpace", func(ex *Exec, fr *Frame, site ssa.Instruction, a []Value) Value {
		switch b := a[0].(type) {
		case ByteStr:
			return ByteStr{s: intrinsics["strings.TrimSpace"](ex, fr, site, []Value{b.s})}
		case Slice:
			if b.n == 0 {
				return b
			}
		}
		panic(unsupported("bytes.TrimSpace of a mutable byte slice"))
	})
	reg("bufio.NewScanner", func(ex *Exec, fr *Frame, site ssa.Instruction, a []Value) Value {
		t := ex.eng.lookupType("bufio", "Scanner")
		p := newPtr(zero(t))
		engState[decoderState](ex, "bufio", p).src = a[0].(Iface)
		return p
	})
	reg("(*bufio.Scanner).Buffer", func(ex *Exec, fr *Frame, site ssa.Instruction, a []Value) Value {
		p := nilCheck(fr, site, a[0])
		if m, ok := a[2].(*Term).BVVal(); ok {
			engState[decoderState](ex, "bufio", p).maxToken = int(int64(m))
		}
		return nil
	})
	reg("(*bufio.Scanner).Scan", func(ex *Exec, fr *Frame, site ssa.Instruction, a []Value) Value {
		p := nilCheck(fr, site, a[0])
		st := engState[decoderState](ex, "bufio", p)
		if st.stickErr != nil {
			return tFalse
		}
		line, err := ex.readLine(fr, site, st, "\n", false)
		if err.t != nil {
			// final unterminated line is still delivered when non-empty
			empty := ex.isEmptyStr(line)
			st.stickErr = &err
			if empty {
				return tFalse
			}
		}
		// strip trailing \r
		line = ex.stripCR(line, site)
		// token limit (bufio.MaxScanTokenSize unless Buffer was called): decidable for concrete-length lines
		limit := st.maxToken
		if limit == 0 {
			limit = 64 * 1024
		}
		if n, ok := ex.concreteStrLen(line); ok && n >= limit {
			e := ex.makeError(mkStr("bufio.Scanner: token too long"))
			st.stickErr = &e
			return tFalse
		}
		ex.hctxSet(p, "scanText", line)
		return tTrue
	})
	reg("(*bufio.Scanner).Text", func(ex *Exec, fr *Frame, site ssa.Instruction, a []Value) Value {
		p := nilCheck(fr, site, a[0])
		if v, ok := ex.hctxGet(p, "scanText").(Value); ok && v != nil {
			return v
		}
		return mkStr("")
	})
	reg("(*bufio.Scanner).Bytes", func(ex *Exec, fr *Frame, site ssa.Instruction, a []Value) Value {
		p := nilCheck(fr, site, a[0])
		if v, ok := ex.hctxGet(p, "scanText").(Value); ok && v != nil {
			return ByteStr{s: v}
		}
		return ByteStr{s: mkStr("")}
	})
	reg("(*bufio.Scanner).Err", func(ex *Exec, fr *Frame, site ssa.Instruction, a []Value) Value {
		p := nilCheck(fr, site, a[0])
		st := engState[decoderState](ex, "bufio", p)
		if st.stickErr != nil {
			if ex.isEOF(*st.stickErr) {
				return Iface{}
			}
			return *st.stickErr
		}
		return Iface{}
	})
	reg("bytes.NewReader", func(ex *Exec, fr *Frame, site ssa.Instruction, a []Value) Value {
		return ex.makeBytesReader(a[0])
	})
	reg("bytes.NewBuffer", func(ex *Exec, fr *Frame, site ssa.Instruction, a []Value) Value {
		return ex.makeBytesReader(a[0])
	})
	reg("bytes.NewBufferString", func(ex *Exec, fr *Frame, site ssa.Instruction, a []Value) Value {
		return ex.makeBytesReader(ByteStr{s: a[0]})
	})
	reg("strings.NewReader", func(ex *Exec, fr *Frame, site ssa.Instruction, a []Value) Value {
		return ex.makeBytesReader(ByteStr{s: a[0]})
	})

	// ---- net/http ----
	hdrGet := func(ex *Exec, fr *Frame, site ssa.Instruction, a []Value) Value {
		m, _ := a[0].(*MapObj)
		key := ex.canonKey(a[1])
		e := ex.mapFind(m, key, site)
		if e == nil {
			return mkStr("")
		}
		s := (*e.v).(Slice)
		if s.n == 0 {
			return mkStr("")
		}
		return s.a[0]
	}
	reg("(net/http.Header).Get", hdrGet)
	reg("(net/http.Header).Values", func(ex *Exec, fr *Frame, site ssa.Instruction, a []Value) Value {
		m, _ := a[0].(*MapObj)
		e := ex.mapFind(m, ex.canonKey(a[1]), site)
		if e == nil {
			return Slice{nil: true}
		}
		return *e.v
	})
	reg("(net/http.Header).Set", func(ex *Exec, fr *Frame, site ssa.Instruction, a []Value) Value {
		m, _ := a[0].(*MapObj)
		if m == nil {
			panic(&goPanic{val: ex.makeRuntimeError("assignment to entry in nil map"), descr: "assignment to entry in nil map", site: ex.site(site), rt: true})
		}
		ex.mapStore(fr, site, m, ex.canonKey(a[1]), sliceOf(a[2]))
		return nil
	})
	reg("(net/http.Header).Add", func(ex *Exec, fr *Frame, site ssa.Instruction, a []Value) Value {
		m, _ := a[0].(*MapObj)
		if m == nil {
			panic(&goPanic{val: ex.makeRuntimeError("assignment to entry in nil map"), descr: "assignment to entry in nil map", site: ex.site(site), rt: true})
		}
		key := ex.canonKey(a[1])
		if e := ex.mapFind(m, key, site); e != nil {
			s := (*e.v).(Slice)
			vals := append(append([]Value{}, s.a[:s.n]...), a[2])
			*e.v = sliceOf(vals...)
			return nil
		}
		ex.mapStore(fr, site, m, key, sliceOf(a[2]))
		return nil
	})
	reg("(net/http.Header).Del", func(ex *Exec, fr *Frame, site ssa.Instruction, a []Value) Value {
		m, _ := a[0].(*MapObj)
		ex.mapDelete(fr, site, m, ex.canonKey(a[1]))
		return nil
	})
	reg("(net/http.Header).Clone", func(ex *Exec, fr *Frame, site ssa.Instruction, a []Value) Value {
		m, _ := a[0].(*MapObj)
		if m == nil {
			return (*MapObj)(nil)
		}
		nm := ex.newMap(m.kt, m.vt)
		for _, e := range m.entries {
			s := (*e.v).(Slice)
			ex.mapStore(fr, site, nm, e.k, sliceOf(append([]Value{}, s.a[:s.n]...)...))
		}
		return nm
	})
	reg("net/http.Error", func(ex *Exec, fr *Frame, site ssa.Instruction, a []Value) Value {
		w := a[0].(Iface)
		h := ex.callMethod(fr, site, w, "Header").(*MapObj)
		ex.mapDelete(fr, site, h, mkStr("Content-Length"))
		ex.mapStore(fr, site, h, mkStr("Content-Type"), sliceOf(mkStr("text/plain; charset=utf-8")))
		ex.mapStore(fr, site, h, mkStr("X-Content-Type-Options"), sliceOf(mkStr("nosniff")))
		ex.callMethod(fr, site, w, "WriteHeader", a[2])
		ex.writeTo(fr, site, w, ropeConcat(a[1], mkStr("\n")))
		return nil
	})
	reg("net/http.StatusText", func(ex *Exec, fr *Frame, site ssa.Instruction, a []Value) Value {
		return ex.fresh("statustext", SStr)
	})
	reg("net/http.NewRequestWithContext", func(ex *Exec, fr *Frame, site ssa.Instruction, a []Value) Value {
		return ex.newHTTPRequest(fr, site, a[0].(Iface), a[1], a[2], a[3].(Iface))
	})
	reg("net/http.NewRequest", func(ex *Exec, fr *Frame, site ssa.Instruction, a []Value) Value {
		bg := ex.call(fr, site, ex.eng.lookupFunc("context", "Background"), nil, false).(Iface)
		return ex.newHTTPRequest(fr, site, bg, a[0], a[1], a[2].(Iface))
	})
	reg("(*net/http.Client).Do", func(ex *Exec, fr *Frame, site ssa.Instruction, a []Value) Value {
		p := nilCheck(fr, site, a[0])
		ct := ex.eng.lookupType("net/http", "Client")
		tr := (*p).(Struct)[fieldIndex(ct, "Transport")].(Iface)
		if tr.t == nil {
			panic(unsupported("http.Client.Do with default transport (harness must supply a RoundTripper)"))
		}
		return ex.callMethod(fr, site, tr, "RoundTrip", a[1])
	})
	reg("net/url.Parse", func(ex *Exec, fr *Frame, site ssa.Instruction, a []Value) Value {
		s, ok := strArg(a[0]).StrVal()
		if !ok {
			panic(unsupported("url.Parse of symbolic string"))
		}
		u, err := url.Parse(s)
		if err != nil {
			return Tuple{nilPtr, ex.makeError(mkStr(err.Error()))}
		}
		return Tuple{ex.urlToValue(u), Iface{}}
	})
	reg("(*net/url.URL).String", func(ex *Exec, fr *Frame, site ssa.Instruction, a []Value) Value {
		u, sym := ex.valueToURL(nilCheck(fr, site, a[0]))
		if sym != nil {
			return sym
		}
		return mkStr(u.String())
	})
	reg("(*net/url.URL).IsAbs", func(ex *Exec, fr *Frame, site ssa.Instruction, a []Value) Value {
		u, _ := ex.valueToURL(nilCheck(fr, site, a[0]))
		return mkBool(u.IsAbs())
	})
	reg("(*net/url.URL).ResolveReference", func(ex *Exec, fr *Frame, site ssa.Instruction, a []Value) Value {
		u, s1 := ex.valueToURL(nilCheck(fr, site, a[0]))
		r, s2 := ex.valueToURL(nilCheck(fr, site, a[1]))
		if s1 != nil || s2 != nil {
			panic(unsupported("ResolveReference on symbolic URL"))
		}
		return ex.urlToValue(u.ResolveReference(r))
	})
	reg("(*net/url.URL).Query", func(ex *Exec, fr *Frame, site ssa.Instruction, a []Value) Value {
		p := nilCheck(fr, site, a[0])
		ut := ex.eng.lookupType("net/url", "URL")
		rq := (*p).(Struct)[fieldIndex(ut, "RawQuery")]
		return ex.parseQuery(fr, site, rq)
	})
	reg("(net/url.Values).Get", func(ex *Exec, fr *Frame, site ssa.Instruction, a []Value) Value {
		m, _ := a[0].(*MapObj)
		e := ex.mapFind(m, a[1], site)
		if e == nil {
			return mkStr("")
		}
		s := (*e.v).(Slice)
		if s.n == 0 {
			return mkStr("")
		}
		return s.a[0]
	})
}

func (ex *Exec) hctxSet(p *Value, k string, v interface{}) {
	m, _ := ex.hctx["kv:"+k].(map[*Value]interface{})
	if m == nil {
		m = map[*Value]interface{}{}
		ex.hctx["kv:"+k] = m
	}
	m[p] = v
}
func (ex *Exec) hctxGet(p *Value, k string) interface{} {
	m, _ := ex.hctx["kv:"+k].(map[*Value]interface{})
	if m == nil {
		return nil
	}
	return m[p]
}

func (ex *Exec) canonKey(v Value) *Term {
	t := strArg(v)
	if s, ok := t.StrVal(); ok {
		return mkStr(textproto.CanonicalMIMEHeaderKey(s))
	}
	panic(unsupported("symbolic header key"))
}

func (ex *Exec) isEOF(e Iface) bool {
	g := ex.eng.lookupGlobal("io", "EOF")
	eof := (*ex.globalAddr(g)).(Iface)
	if e.t == nil || eof.t == nil {
		return false
	}
	pe, ok1 := e.v.(*Value)
	pf, ok2 := eof.v.(*Value)
	return ok1 && ok2 && pe == pf
}

func (ex *Exec) isEmptyStr(v Value) bool {
	switch x := v.(type) {
	case *Term:
		s, ok := x.StrVal()
		return ok && s == ""
	}
	return false
}

func (ex *Exec) stripCR(line Value, site ssa.Instruction) Value {
	switch x := line.(type) {
	case *Term:
		if s, ok := x.StrVal(); ok {
			return mkStr(strings.TrimSuffix(s, "\r"))
		}
		has := tStrSuffixOf(mkStr("\r"), x)
		if ex.branch(has, site) {
			return tStrSubstr(x, mkInt(0), tIntSub(tStrLen(x), mkInt(1)))
		}
		return x
	case *Rope:
		last := x.parts[len(x.parts)-1]
		if t, ok := last.(*Term); ok {
			np := append(append([]interface{}{}, x.parts[:len(x.parts)-1]...), ex.stripCR(t, site))
			return mkRope(np)
		}
	}
	return line
}

// nextChunk pulls the next chunk from a harness reader (VerifNextChunk) or everything (VerifReadAll).
type multiState struct {
	subs []Iface
	eof  []bool
	i    int
}

func (ex *Exec) nextChunk(fr *Frame, site ssa.Instruction, st *decoderState) (Value, Iface) {
	return ex.readerChunk(fr, site, st.src, &st.eof)
}

func (ex *Exec) eofErr() Iface {
	g := ex.eng.lookupGlobal("io", "EOF")
	return (*ex.globalAddr(g)).(Iface)
}

// readerChunk delivers the next piece of content of an io.Reader the engine knows how to read.
func (ex *Exec) readerChunk(fr *Frame, site ssa.Instruction, src Iface, eof *bool) (Value, Iface) {
	if src.t == nil {
		fr.rtPanic(site, "invalid memory address or nil pointer dereference (nil reader)")
	}
	if m := ex.findMethod(src.t, "VerifNextChunk"); m != nil {
		r := ex.call(fr, site, m, []Value{src.v}, false).(Tuple)
		if e := r[1].(Iface); e.t != nil {
			return mkStr(""), e
		}
		return r[0].(ByteStr).s, Iface{}
	}
	if m := ex.findMethod(src.t, "VerifReadAll"); m != nil {
		if *eof {
			return mkStr(""), ex.eofErr()
		}
		*eof = true
		r := ex.call(fr, site, m, []Value{src.v}, false).(Tuple)
		if e := r[1].(Iface); e.t != nil {
			return mkStr(""), e
		}
		switch b := r[0].(type) {
		case ByteStr:
			return b.s, Iface{}
		case Slice:
			if b.n == 0 {
				return mkStr(""), Iface{}
			}
		}
		panic(unsupported("VerifReadAll result"))
	}
	if p, ok := src.v.(*Value); ok && p != nil {
		if ms, ok := ex.hctxGet(p, "multi").(*multiState); ok {
			for ms.i < len(ms.subs) {
				c, err := ex.readerChunk(fr, site, ms.subs[ms.i], &ms.eof[ms.i])
				if err.t != nil {
					if ex.isEOF(err) {
						ms.i++
						continue
					}
					return mkStr(""), err
				}
				return c, Iface{}
			}
			return mkStr(""), ex.eofErr()
		}
		// a *bufio.Reader created by the engine: its unread remainder first, then its source
		if m, _ := ex.hctx["bufio"].(map[*Value]*decoderState); m != nil {
			if bs := m[p]; bs != nil {
				if bs.pending != nil && !ex.isEmptyStr(bs.pending) {
					c := bs.pending
					bs.pending = mkStr("")
					return c, Iface{}
				}
				if bs.stickErr != nil {
					return mkStr(""), *bs.stickErr
				}
				return ex.readerChunk(fr, site, bs.src, &bs.eof)
			}
		}
		if c := ex.hctxGet(p, "content"); c != nil {
			ex.hctxSet(p, "content", nil)
			if bs, ok := c.(ByteStr); ok {
				return bs.s, Iface{}
			}
			if sl, ok := c.(Slice); ok && sl.n == 0 {
				return mkStr(""), Iface{}
			}
		}
		return mkStr(""), ex.eofErr()
	}
	panic(unsupported("reader " + src.t.String() + " has neither VerifNextChunk nor VerifReadAll"))
}

// readLine returns content up to delim (included when keep) pulling chunks as needed.
func (ex *Exec) readLine(fr *Frame, site ssa.Instruction, st *decoderState, delim string, keep bool) (Value, Iface) {
	if st.pending == nil {
		st.pending = mkStr("")
	}
	for n := 0; n < 64; n++ {
		before, after, found := ex.ropeCut(st.pending, delim, site)
		if found {
			st.pending = after
			if keep {
				return ropeConcat(before, mkStr(delim)), Iface{}
			}
			return before, Iface{}
		}
		if st.stickErr != nil {
			rest := st.pending
			st.pending = mkStr("")
			return rest, *st.stickErr
		}
		chunk, err := ex.nextChunk(fr, site, st)
		if err.t != nil {
			st.stickErr = &err
			continue
		}
		st.pending = ropeConcat(st.pending, chunk)
	}
	panic(&unwindFail{"readLine unwinding at " + ex.site(site)})
}

// makeBytesReader builds a reader value for bytes.NewReader & co: a harness-independent engine type.
func (ex *Exec) makeBytesReader(content Value) Value {
	t := ex.eng.lookupType("bytes", "Reader")
	p := newPtr(zero(t))
	ex.hctxSet(p, "content", content)
	return p
}

func (ex *Exec) newHTTPRequest(fr *Frame, site ssa.Instruction, ctx Iface, method, urlv Value, body Iface) Value {
	if ctx.t == nil {
		return Tuple{nilPtr, ex.makeError(mkStr("net/http: nil Context"))}
	}
	rt := ex.eng.lookupType("net/http", "Request")
	st := zero(rt).(Struct)
	us, ok := strArg(urlv).StrVal()
	var uval Value
	if ok {
		u, err := url.Parse(us)
		if err != nil {
			return Tuple{nilPtr, ex.makeError(mkStr(err.Error()))}
		}
		uval = ex.urlToValue(u)
		st[fieldIndex(rt, "Host")] = mkStr(u.Host)
	} else {
		// symbolic URL: keep it whole in Opaque
		ut := ex.eng.lookupType("net/url", "URL")
		uv := zero(ut).(Struct)
		uv[fieldIndex(ut, "Opaque")] = strArg(urlv)
		uval = newPtr(uv)
		ex.hctxSet(uval.(*Value), "symurl", strArg(urlv))
	}
	st[fieldIndex(rt, "Method")] = method
	st[fieldIndex(rt, "URL")] = uval
	st[fieldIndex(rt, "Proto")] = mkStr("HTTP/1.1")
	st[fieldIndex(rt, "ProtoMajor")] = bvInt(1)
	st[fieldIndex(rt, "ProtoMinor")] = bvInt(1)
	st[fieldIndex(rt, "Header")] = ex.newMap(types.Typ[types.String], types.NewSlice(types.Typ[types.String]))
	if body.t != nil {
		st[fieldIndex(rt, "Body")] = body
	}
	st[fieldIndex(rt, "ctx")] = ctx
	return Tuple{newPtr(st), Iface{}}
}

func (ex *Exec) urlToValue(u *url.URL) Value {
	ut := ex.eng.lookupType("net/url", "URL")
	st := zero(ut).(Struct)
	st[fieldIndex(ut, "Scheme")] = mkStr(u.Scheme)
	st[fieldIndex(ut, "Opaque")] = mkStr(u.Opaque)
	st[fieldIndex(ut, "Host")] = mkStr(u.Host)
	st[fieldIndex(ut, "Path")] = mkStr(u.Path)
	st[fieldIndex(ut, "RawPath")] = mkStr(u.RawPath)
	st[fieldIndex(ut, "RawQuery")] = mkStr(u.RawQuery)
	st[fieldIndex(ut, "Fragment")] = mkStr(u.Fragment)
	st[fieldIndex(ut, "ForceQuery")] = mkBool(u.ForceQuery)
	return newPtr(st)
}

func (ex *Exec) valueToURL(p *Value) (*url.URL, Value) {
	if s := ex.hctxGet(p, "symurl"); s != nil {
		return nil, s.(Value)
	}
	ut := ex.eng.lookupType("net/url", "URL")
	st := (*p).(Struct)
	get := func(n string) string {
		t := st[fieldIndex(ut, n)].(*Term)
		s, ok := t.StrVal()
		if !ok {
			panic(unsupported("symbolic URL field " + n))
		}
		return s
	}
	u := &url.URL{Scheme: get("Scheme"), Opaque: get("Opaque"), Host: get("Host"), Path: get("Path"),
		RawPath: get("RawPath"), RawQuery: get("RawQuery"), Fragment: get("Fragment")}
	return u, nil
}

func (ex *Exec) parseQuery(fr *Frame, site ssa.Instruction, rq Value) Value {
	m := ex.newMap(types.Typ[types.String], types.NewSlice(types.Typ[types.String]))
	t := strArg(rq)
	if s, ok := t.StrVal(); ok {
		vals, _ := url.ParseQuery(s)
		for k, vs := range vals {
			var sv []Value
			for _, v := range vs {
				sv = append(sv, mkStr(v))
			}
			ex.mapStore(fr, site, m, mkStr(k), sliceOf(sv...))
		}
		return m
	}
	// symbolic raw query of the form key=value (harness convention: "sessionId=" ++ sym)
	if t.Op == "str.++" {
		if pre, ok := t.Args[0].StrVal(); ok && strings.HasSuffix(pre, "=") && !strings.Contains(pre, "&") {
			ex.mapStore(fr, site, m, mkStr(strings.TrimSuffix(pre, "=")), sliceOf(t.Args[1]))
			return m
		}
	}
	panic(unsupported("symbolic query string " + valString(t)))
}

// concreteStrLen: the byte length of a string value when it is fully concrete.
func (ex *Exec) concreteStrLen(v Value) (int, bool) {
	if t, ok := v.(*Term); ok {
		if s, ok := t.StrVal(); ok {
			return len(s), true
		}
	}
	return 0, false
}
