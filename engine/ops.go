package main

// Maps, builtins, range iteration, string helpers, ropes.

import (
	"fmt"
	"go/types"
	"unicode/utf8"

	"golang.org/x/tools/go/ssa"
)

// ---------------------------------------------------------------------------------------
// maps

type hkey struct {
	kind string
	a    interface{}
	b    interface{}
}

func hashKey(v Value) (interface{}, bool) {
	switch k := v.(type) {
	case *Term:
		if k.IsConst() {
			return hkey{"t", k.Sort, k.K}, true
		}
		return nil, false
	case *Value:
		return hkey{"p", k, nil}, true
	case Iface:
		if k.t == nil {
			return hkey{"nil", nil, nil}, true
		}
		inner, ok := hashKey(k.v)
		if !ok {
			return nil, false
		}
		return hkey{"i", k.t.String(), inner}, true
	case *ChanObj:
		return hkey{"c", k, nil}, true
	case Struct:
		s := "s"
		for _, f := range k {
			h, ok := hashKey(f)
			if !ok {
				return nil, false
			}
			s += fmt.Sprintf("|%v", h)
		}
		return hkey{"s", s, nil}, true
	}
	return nil, false
}

func (ex *Exec) newMap(kt, vt types.Type) *MapObj {
	ex.nMap++
	return &MapObj{idx: map[interface{}]int{}, kt: kt, vt: vt, id: ex.nMap}
}

func (m *MapObj) allConcrete() bool { return len(m.idx) == len(m.entries) }

// mapFind returns the entry for key (forking on symbolic key equality), or nil.
func (ex *Exec) mapFind(m *MapObj, key Value, site ssa.Instruction) *mapEntry {
	if m == nil {
		return nil
	}
	if m.lazy != nil {
		return ex.lazyMapFind(m, key, site)
	}
	if h, ok := hashKey(key); ok && m.allConcrete() {
		if i, ok := m.idx[h]; ok {
			return m.entries[i]
		}
		return nil
	}
	for _, e := range m.entries {
		if ex.branch(ex.valEq(e.k, key), site) {
			return e
		}
	}
	return nil
}

func (ex *Exec) mapShadow(m *MapObj) *Value {
	mm, _ := ex.hctx["mapShadow"].(map[*MapObj]*Value)
	if mm == nil {
		mm = map[*MapObj]*Value{}
		ex.hctx["mapShadow"] = mm
	}
	p := mm[m]
	if p == nil {
		p = new(Value)
		mm[m] = p
	}
	return p
}

func (ex *Exec) lookup(fr *Frame, in *ssa.Lookup) Value {
	x := fr.get(in.X)
	switch m := x.(type) {
	case *MapObj:
		if m != nil && ex.raceOn {
			ex.access(ex.mapShadow(m), false, in)
		}
		e := ex.mapFind(m, fr.get(in.Index), in)
		vt := in.X.Type().Underlying().(*types.Map).Elem()
		var v Value
		if e != nil {
			v = copyVal(*e.v)
		} else {
			v = zero(vt)
		}
		if in.CommaOk {
			return Tuple{v, mkBool(e != nil)}
		}
		return v
	case *Term:
		if m.Sort == SStr {
			return ex.strByteAt(fr, in, m, fr.get(in.Index).(*Term))
		}
	}
	panic(unsupported(fmt.Sprintf("Lookup on %T", x)))
}

func (ex *Exec) mapStore(fr *Frame, site ssa.Instruction, m *MapObj, key, val Value) {
	if ex.raceOn {
		ex.access(ex.mapShadow(m), true, site)
	}
	if m.lazy != nil {
		ex.lazyMapClose(m, site)
	}
	if e := ex.mapFind(m, key, site); e != nil {
		*e.v = val
		return
	}
	slot := new(Value)
	*slot = val
	m.entries = append(m.entries, &mapEntry{k: key, v: slot})
	if h, ok := hashKey(key); ok {
		m.idx[h] = len(m.entries) - 1
	}
}

func (ex *Exec) mapDelete(fr *Frame, site ssa.Instruction, m *MapObj, key Value) {
	if m == nil {
		return
	}
	if ex.raceOn {
		ex.access(ex.mapShadow(m), true, site)
	}
	if m.lazy != nil {
		ex.lazyMapClose(m, site)
	}
	e := ex.mapFind(m, key, site)
	if e == nil {
		return
	}
	var ne []*mapEntry
	for _, x := range m.entries {
		if x != e {
			ne = append(ne, x)
		}
	}
	m.entries = ne
	m.idx = map[interface{}]int{}
	for i, x := range m.entries {
		if h, ok := hashKey(x.k); ok {
			m.idx[h] = i
		}
	}
}

func (ex *Exec) mapLen(m *MapObj, site ssa.Instruction) *Term {
	if m == nil {
		return mkBV(SBV64, 0)
	}
	if m.lazy != nil {
		ex.lazyMapClose(m, site)
	}
	if ex.raceOn {
		ex.access(ex.mapShadow(m), false, site)
	}
	return mkBV(SBV64, uint64(len(m.entries)))
}

// ---------------------------------------------------------------------------------------
// range

type symStrIter struct {
	s   *Term
	pos int
}

func (ex *Exec) rangeIter(fr *Frame, in *ssa.Range, x Value) Value {
	switch v := x.(type) {
	case *MapObj:
		it := &MapIter{m: v}
		if v != nil {
			if v.lazy != nil {
				ex.lazyMapClose(v, in)
			}
			if ex.raceOn {
				ex.access(ex.mapShadow(v), false, in)
			}
			it.snap = append([]*mapEntry{}, v.entries...)
		}
		return it
	case *Term:
		if s, ok := v.StrVal(); ok {
			return &StrIter{s: s}
		}
		return &symStrIter{s: v}
	}
	panic(unsupported(fmt.Sprintf("range over %T", x)))
}

func (ex *Exec) iterNext(fr *Frame, in *ssa.Next, it Value) Value {
	switch it := it.(type) {
	case *MapIter:
		for it.i < len(it.snap) {
			e := it.snap[it.i]
			it.i++
			// skip entries deleted during iteration
			present := false
			for _, x := range it.m.entries {
				if x == e {
					present = true
					break
				}
			}
			if !present {
				continue
			}
			return Tuple{tTrue, e.k, copyVal(*e.v)}
		}
		return Tuple{tFalse, zero(it.m.ktOr()), zero(it.m.vtOr())}
	case *StrIter:
		if it.pos >= len(it.s) {
			return Tuple{tFalse, mkBV(SBV64, 0), mkBV(SBV32, 0)}
		}
		// decode rune
		r, size := decodeRune(it.s[it.pos:])
		res := Tuple{tTrue, mkBV(SBV64, uint64(it.pos)), mkBV(SBV32, uint64(r))}
		it.pos += size
		return res
	case *symStrIter:
		// bytes treated as runes: harness alphabets are ASCII (stated per harness)
		more := tIntCmp("<", mkInt(int64(it.pos)), tStrLen(it.s))
		if !ex.branch(more, in) {
			return Tuple{tFalse, mkBV(SBV64, 0), mkBV(SBV32, 0)}
		}
		code := tStrToCode(tStrAt(it.s, mkInt(int64(it.pos))))
		res := Tuple{tTrue, mkBV(SBV64, uint64(it.pos)), tIntToBV(code, SBV32)}
		it.pos++
		return res
	}
	panic(unsupported(fmt.Sprintf("next on %T", it)))
}

func (m *MapObj) ktOr() types.Type {
	if m == nil || m.kt == nil {
		return types.Typ[types.String]
	}
	return m.kt
}
func (m *MapObj) vtOr() types.Type {
	if m == nil || m.vt == nil {
		return types.Typ[types.Int]
	}
	return m.vt
}

func decodeRune(s string) (rune, int) {
	return utf8.DecodeRuneInString(s)
}

// ---------------------------------------------------------------------------------------
// builtins

func (ex *Exec) builtin(fr *Frame, site ssa.Instruction, b *ssa.Builtin, args []Value, isDefer bool) Value {
	switch b.Name() {
	case "len":
		switch v := args[0].(type) {
		case *Term:
			if s, ok := v.StrVal(); ok {
				return mkBV(SBV64, uint64(len(s)))
			}
			return tStrLen(v) // Int-backed
		case *Rope:
			return ex.ropeLen(v)
		case ByteStr:
			switch s := v.s.(type) {
			case *Term:
				if c, ok := s.StrVal(); ok {
					return mkBV(SBV64, uint64(len(c)))
				}
				return tStrLen(s)
			case *Rope:
				return ex.ropeLen(s)
			}
		case Slice:
			return mkBV(SBV64, uint64(v.n))
		case Array:
			return mkBV(SBV64, uint64(len(v)))
		case *Value:
			if v == nil {
				return mkBV(SBV64, 0)
			}
			return mkBV(SBV64, uint64(len((*v).(Array))))
		case *MapObj:
			return ex.mapLen(v, site)
		case *ChanObj:
			if v == nil {
				return mkBV(SBV64, 0)
			}
			return mkBV(SBV64, uint64(len(v.buf)))
		}
	case "cap":
		switch v := args[0].(type) {
		case Slice:
			return mkBV(SBV64, uint64(len(v.a)))
		case Array:
			return mkBV(SBV64, uint64(len(v)))
		case *ChanObj:
			if v == nil {
				return mkBV(SBV64, 0)
			}
			return mkBV(SBV64, uint64(v.cap))
		case ByteStr:
			return ex.builtin(fr, site, b, args, isDefer) // same as len (approximation never observed)
		}
	case "append":
		return ex.appendOp(fr, site, args[0], args[1])
	case "copy":
		dst, ok1 := args[0].(Slice)
		if !ok1 {
			panic(unsupported("copy into non-slice"))
		}
		switch src := args[1].(type) {
		case Slice:
			n := dst.n
			if src.n < n {
				n = src.n
			}
			tmp := make([]Value, n)
			for i := 0; i < n; i++ {
				tmp[i] = copyVal(src.a[i])
			}
			for i := 0; i < n; i++ {
				ex.access(&dst.a[i], true, site)
				dst.a[i] = tmp[i]
			}
			return mkBV(SBV64, uint64(n))
		}
		panic(unsupported(fmt.Sprintf("copy from %T", args[1])))
	case "delete":
		m, _ := args[0].(*MapObj)
		ex.mapDelete(fr, site, m, args[1])
		return nil
	case "close":
		c, _ := args[0].(*ChanObj)
		ex.chanClose(fr, site, c)
		return nil
	case "panic":
		panic(&goPanic{val: args[0], descr: ex.describePanic(args[0]), site: ex.site(site)})
	case "recover":
		return ex.doRecover(fr)
	case "print", "println":
		return nil
	case "min", "max":
		r := args[0].(*Term)
		for _, a := range args[1:] {
			t := a.(*Term)
			var lt *Term
			bt := site.(ssa.Value).Type()
			switch {
			case r.Sort.isBV():
				if isSigned(bt) {
					lt = tBVSlt(t, r)
				} else {
					lt = tBVUlt(t, r)
				}
			case r.Sort == SF64:
				lt = tFCmp("fp.lt", t, r)
			default:
				panic(unsupported("min/max sort"))
			}
			if b.Name() == "max" {
				r = tIte(lt, r, t)
			} else {
				r = tIte(lt, t, r)
			}
		}
		return r
	case "clear":
		if m, ok := args[0].(*MapObj); ok && m != nil {
			m.entries = nil
			m.idx = map[interface{}]int{}
			return nil
		}
	case "ssa:wrapnilchk":
		p, _ := args[0].(*Value)
		if p == nil {
			fr.rtPanic(site, "value method called using nil pointer")
		}
		return args[0]
	}
	panic(unsupported(fmt.Sprintf("builtin %s on %T at %s", b.Name(), args[0], ex.site(site))))
}

func (ex *Exec) doRecover(fr *Frame) Value {
	// recover() is effective only when called directly by a deferred function while the
	// deferring frame is panicking.
	owner := ex.deferOwner
	if owner != nil && owner.panicking && fr.caller == owner {
		owner.panicking = false
		gp := owner.panicVal
		owner.panicVal = nil
		if _, ok := gp.val.(Iface); ok {
			return gp.val
		}
		return gp.val
	}
	return Iface{}
}

func (ex *Exec) appendOp(fr *Frame, site ssa.Instruction, a, b Value) Value {
	// byte-string flavours
	if bs, ok := a.(ByteStr); ok {
		switch y := b.(type) {
		case ByteStr:
			return ByteStr{s: ropeConcat(bs.s, y.s)}
		case *Term:
			return ByteStr{s: ropeConcat(bs.s, y)}
		case *Rope:
			return ByteStr{s: ropeConcat(bs.s, y)}
		case Slice:
			if y.n == 0 {
				return bs
			}
			var r Value = bs.s
			for i := 0; i < y.n; i++ {
				r = ropeConcat(r, tStrFromCode(tBVToInt(y.a[i].(*Term), false)))
			}
			return ByteStr{s: r}
		}
	}
	s, ok := a.(Slice)
	if !ok {
		panic(unsupported(fmt.Sprintf("append to %T", a)))
	}
	switch y := b.(type) {
	case ByteStr:
		if s.n == 0 {
			return y
		}
		var r Value = mkStr("")
		for i := 0; i < s.n; i++ {
			r = ropeConcat(r, tStrFromCode(tBVToInt(s.a[i].(*Term), false)))
		}
		return ByteStr{s: ropeConcat(r, y.s)}
	case *Term: // append([]byte, string...)
		return ex.appendOp(fr, site, a, ByteStr{s: y})
	case *Rope:
		return ex.appendOp(fr, site, a, ByteStr{s: y})
	case Slice:
		if y.n == 0 {
			if s.nil && !y.nil {
				// append(nil, []T{}...) stays nil
				return s
			}
			return s
		}
		if s.n+y.n <= len(s.a) {
			for i := 0; i < y.n; i++ {
				ex.access(&s.a[s.n+i], true, site)
				s.a[s.n+i] = copyVal(y.a[i])
			}
			return Slice{a: s.a, n: s.n + y.n}
		}
		ncap := 2 * len(s.a)
		if ncap < s.n+y.n {
			ncap = s.n + y.n
		}
		na := make([]Value, ncap)
		for i := 0; i < s.n; i++ {
			na[i] = s.a[i]
		}
		for i := 0; i < y.n; i++ {
			na[s.n+i] = copyVal(y.a[i])
		}
		var et types.Type
		if v, ok := site.(ssa.Value); ok {
			if st, ok := v.Type().Underlying().(*types.Slice); ok {
				et = st.Elem()
			}
		}
		for i := s.n + y.n; i < ncap; i++ {
			if et != nil {
				na[i] = zero(et)
			}
		}
		return Slice{a: na, n: s.n + y.n}
	}
	panic(unsupported(fmt.Sprintf("append of %T", b)))
}

// ---------------------------------------------------------------------------------------
// strings

func (ex *Exec) toIntTerm(v Value) *Term {
	t := v.(*Term)
	if t.Sort == SInt {
		return t
	}
	return tBVToInt(t, true)
}

func (ex *Exec) strSlice(fr *Frame, site ssa.Instruction, s Value, lo, hi ssa.Value) Value {
	st, ok := s.(*Term)
	if !ok {
		r := s.(*Rope)
		// only trivial whole-rope slices supported
		if lo == nil && hi == nil {
			return r
		}
		// s[k:] with k inside a leading constant part
		if hi == nil {
			k := ex.concreteInt(fr.get(lo), "rope slice low", site)
			parts := ropeParts(r)
			if len(parts) > 0 {
				if t, ok := parts[0].(*Term); ok {
					if c, ok := t.StrVal(); ok && k >= 0 && k <= len(c) {
						return mkRope(append([]interface{}{mkStr(c[k:])}, parts[1:]...))
					}
				}
			}
		}
		panic(unsupported("slicing a rope at " + ex.site(site)))
	}
	var l, h *Term = mkInt(0), tStrLen(st)
	if lo != nil {
		l = ex.toIntTerm(fr.get(lo))
	}
	if hi != nil {
		h = ex.toIntTerm(fr.get(hi))
	}
	okc := tAndN(tIntCmp(">=", l, mkInt(0)), tIntCmp("<=", l, h), tIntCmp("<=", h, tStrLen(st)))
	if !ex.branch(okc, site) {
		fr.rtPanic(site, "slice bounds out of range (string)")
	}
	return tStrSubstr(st, l, tIntSub(h, l))
}

// ---------------------------------------------------------------------------------------
// ropes

func ropeParts(v Value) []interface{} {
	switch x := v.(type) {
	case *Rope:
		var out []interface{}
		for _, p := range x.parts {
			if t, ok := p.(*Term); ok {
				out = append(out, ropeParts(t)...)
			} else {
				out = append(out, p)
			}
		}
		return out
	case *Term:
		if s, ok := x.StrVal(); ok && s == "" {
			return nil
		}
		if x.Op == "str.++" {
			var flat []*Term
			flattenStr(x, &flat)
			out := make([]interface{}, len(flat))
			for i, f := range flat {
				out[i] = f
			}
			return out
		}
		return []interface{}{x}
	case ByteStr:
		return ropeParts(x.s)
	}
	panic(unsupported(fmt.Sprintf("rope part %T", v)))
}

// ropeConcat concatenates strings/ropes; result is a *Term when no tree part is involved.
func ropeConcat(a, b Value) Value {
	pa, pb := ropeParts(a), ropeParts(b)
	parts := append(append([]interface{}{}, pa...), pb...)
	// merge adjacent terms
	var out []interface{}
	for _, p := range parts {
		if t, ok := p.(*Term); ok && len(out) > 0 {
			if lt, ok := out[len(out)-1].(*Term); ok {
				out[len(out)-1] = tStrConcat(lt, t)
				continue
			}
		}
		out = append(out, p)
	}
	if len(out) == 0 {
		return mkStr("")
	}
	if len(out) == 1 {
		if t, ok := out[0].(*Term); ok {
			return t
		}
	}
	return &Rope{parts: out}
}

func (ex *Exec) ropeLen(r *Rope) *Term {
	var total *Term = mkInt(0)
	for _, p := range r.parts {
		switch x := p.(type) {
		case *Term:
			total = tIntAdd(total, tStrLen(x))
		case *JNode:
			// one length variable per JSON text (its exact value is not modelled, only >= 1)
			if x.lenVar == nil {
				x.lenVar = ex.fresh("jlen", SInt)
				ex.assume(tIntCmp(">=", x.lenVar, mkInt(1)))
			}
			total = tIntAdd(total, x.lenVar)
		}
	}
	return total
}

// ropeEq: a rope containing a JSON tree equals a plain string only in special byte-level
// cases (DESIGN 2.7): "null" and "{}".
func (ex *Exec) ropeEq(r *Rope, t *Term) *Term {
	if len(r.parts) == 1 {
		if n, ok := r.parts[0].(*JNode); ok {
			if s, ok := t.StrVal(); ok {
				return ex.jsonTextEq(n, s)
			}
		}
	}
	if s, ok := t.StrVal(); ok && s == "" {
		return tFalse
	}
	panic(unsupported("comparison of a JSON-bearing string with " + valString(t)))
}
